"""Shared driver for C03 / C07 (spec/TreeOps.tla, MC_TreeOps.tla, Trace_TreeOps.tla).

No oracle here: this module builds real trees, calls the public mutators,
projects the raw pointer graph before/after every call (also when the call
raises) and logs events.  TLC judges them (Trace_TreeOps.tla).

Node identity: every node object gets a *key* (small int) when first seen;
keys are what the model's action arguments refer to, so TLC behaviours can be
replayed whatever child order the library produced.  Naming convention for
nodes created by a call (shared with TreeOps!Rekey): next keys in the order
(smallest key of an old leaf below, larger clade first).
"""
import itertools
import random
from fractions import Fraction
import resource
import signal

from . import proj, build, core, tlaval

SCALE = 16              # logged length = real length * SCALE; the model's 16 is 1.0
ITER_CAP = 200          # iterators are cut after this many items (cyclic graphs)
CALL_CPU_LIMIT = 20.0   # CPU seconds for one library call: a legitimate call on <= 30 nodes needs milliseconds

NEEDS_NONSEED = ("RerootAtEdge", "ToOutgroupPosition", "CollapseEdge", "InsertChild", "RemoveChild", "ReAddChild", "Regraft",
                 "AddChildParent")
NEEDS_INTERNAL = ("ReseedAt", "RerootAtNode", "CollapseClade", "NewChild", "InsertNewChild", "RotateChildren")
REORIENT = ("ReseedAt", "RerootAtNode", "RerootAtEdge", "RerootAtMidpoint", "ToOutgroupPosition",
            "Ladderize", "Reorder", "RandomlyReorient", "RandomlyRotate")
TAXON_LABELS = ["T%02d" % (i + 1) for i in range(40)]


class Hang(BaseException):
    pass


def _alarm(signum, frame):
    raise Hang()


def guarded(fn):
    """-> (raised, value).  Library exceptions are outcomes, never swallowed silently."""
    old = signal.signal(signal.SIGVTALRM, _alarm)
    # periodic: a library `except:` clause may swallow the first one
    signal.setitimer(signal.ITIMER_VIRTUAL, CALL_CPU_LIMIT, 2.0)
    try:
        try:
            return "", fn()
        except Hang:
            return "Hang", None
        except RecursionError:
            return "RecursionError", None
        except MemoryError:
            return "MemoryError", None
        except Exception as ex:
            return type(ex).__name__, None
    finally:
        signal.setitimer(signal.ITIMER_VIRTUAL, 0)
        signal.signal(signal.SIGVTALRM, old)


_LIMITED = [False]


def limit_memory():
    """A call on a damaged object graph may allocate without bound: turn that into MemoryError (an outcome that
    is logged and judged) instead of an OOM kill of the worker."""
    if not _LIMITED[0]:
        _LIMITED[0] = True
        import multiprocessing
        if multiprocessing.current_process().name == "MainProcess":
            return            # never in the process that starts the TLC JVMs
        try:
            soft, hard = resource.getrlimit(resource.RLIMIT_AS)
            cap = 8 << 30
            if soft == resource.RLIM_INFINITY or soft > cap:
                resource.setrlimit(resource.RLIMIT_AS, (cap, hard))
        except Exception:
            pass


def suspect(g):
    """Should a history go on from this state?  Not a verdict (TLC judges the logged state): calling further
    mutators on an object graph with shared or dangling nodes can take exponential time and memory.  The
    trace specification cross-checks the decision (an event with stopped=true whose post-state TLC finds
    well formed is reported)."""
    n = g["n"]
    occ = [0] * (n + 1)
    for i, ks in enumerate(g["kids"]):
        for c in ks:
            if not (0 < c <= n):
                return True
            occ[c] += 1
            if g["par"][c - 1] != i + 1:
                return True
    for x in range(1, n + 1):
        if x == g["seed"]:
            if occ[x] != 0 or g["par"][x - 1] != 0:
                return True
        elif occ[x] != 1:
            return True
    return False


def real_len(v):
    return None if v < 0 else v / float(SCALE)


def nested_of_graph(g):
    """model graph record (tlaval dict) -> nested form for build.py; taxa indices = code - 1"""
    def mk(x):
        kids = [mk(c) for c in g["kids"][x - 1]]
        tx = g["tx"][x - 1]
        return [None, (tx - 1) if tx else None, real_len(g["len"][x - 1]), kids]
    return mk(g["seed"])


SCALE_EXPONENTS = (0, -23, -10, 10, 20)     # C07: every length multiplied by 2**e (exact in floating point)


def dup_labels(n):
    """labels of a namespace holding distinct Taxon objects with equal and with case-variant labels"""
    labs = list(TAXON_LABELS[:n])
    if n >= 2:
        labs[1] = labs[0]
    if n >= 4:
        labs[3] = labs[2].lower()
    return labs


def scale_nested(nested, f):
    lab, tx, ln, kids = nested
    return [lab, tx, None if ln is None else ln * f, [scale_nested(k, f) for k in kids]]


class World(object):
    def __init__(self, dendropy, nested, rooted, ntaxa, want_api=False, encoded=False, duplabels=False, sexp=0):
        self.d = dendropy
        self.duplabels = duplabels
        self.sexp = sexp
        self.factor = 2.0 ** sexp                              # real length = model length / SCALE * factor
        self.pscale = Fraction(SCALE) / Fraction(2) ** sexp    # logged length = real length * pscale (exact)
        labels = dup_labels(ntaxa) if duplabels else TAXON_LABELS[:ntaxa]
        self.ns, self.taxa = build.make_namespace(dendropy, ntaxa, labels=labels)
        if sexp:
            nested = scale_nested(nested, self.factor)
        self.tree = build.build_tree(dendropy, nested, self.ns, self.taxa, rooted=bool(rooted))
        if encoded:      # the start tree carries a current encoding (structure untouched)
            self.tree.encode_bipartitions(suppress_unifurcations=False, collapse_unrooted_basal_bifurcation=False)
        self.ntaxa = ntaxa
        self.keys = {}
        self.keep = []
        self.want_api = want_api
        self.cur = None          # (G with keys named, order) of the current state
        g, order = self.snapshot()
        self.name_new(g, order)
        self.cur = (g, order)

    # -------------------------------------------------------------- projection
    def snapshot(self):
        ids = {}
        g = proj.tree_graph(self.tree, scale=self.pscale, node_ids=ids, labels=False)
        order = ids.pop("__order__")
        g["key"] = [self.keys.get(id(nd), 0) for nd in order]
        bl, bs = [], []
        by_bip = {}
        for k, nd in enumerate(order):
            e = getattr(nd, "_edge", None)
            b = getattr(e, "_bipartition", None) if e is not None else None
            if b is None:
                bl.append([-1])
                bs.append([-1])
            else:
                by_bip[id(b)] = k + 1
                lm, sm = getattr(b, "_leafset_bitmask", None), getattr(b, "_split_bitmask", None)
                bl.append(proj.codes_of_mask(lm) if isinstance(lm, int) and lm >= 0 else [-1])
                bs.append(proj.codes_of_mask(sm) if isinstance(sm, int) and sm >= 0 else [-1])
        enc = getattr(self.tree, "bipartition_encoding", None)
        g["bl"], g["bs"] = bl, bs
        g["has"] = isinstance(enc, list)
        g["enc"] = [by_bip.get(id(b), 0) for b in enc] if isinstance(enc, list) else []
        return g, order

    def name_new(self, g, order, floor=0):
        """give keys to the nodes not seen before (convention of TreeOps!Rekey)"""
        new = [i for i in range(g["n"]) if g["key"][i] == 0]
        if not new:
            return
        if len(new) == g["n"]:                      # a fresh tree: keys = projection ids
            ranked = new
        else:
            def below(i):
                out, st = [], [i]
                seen = set()
                while st:
                    x = st.pop()
                    if x in seen:
                        continue
                    seen.add(x)
                    ks = g["kids"][x]
                    if not ks:
                        out.append(x)
                    st.extend(c - 1 for c in ks if 0 < c <= g["n"])
                return out
            def sk(i):
                lv = below(i)
                ks = [g["key"][j] for j in lv if g["key"][j] != 0]
                return ((min(ks) if ks else 0) * 1000 + (999 - len(lv)), i)
            ranked = sorted(new, key=sk)
        nxt = max(max(g["key"]), floor) + 1
        for i in ranked:
            g["key"][i] = nxt
            self.keys[id(order[i])] = nxt
            self.keep.append(order[i])
            nxt += 1

    def node_of_key(self, k):
        g, order = self.cur
        for i, kk in enumerate(g["key"]):
            if kk == k:
                return order[i], i + 1
        return None, 0

    def api_view(self):
        """Tree.length() and phylogenetic_distance_matrix() as logged cross-check values (C07)"""
        out = {"len": -3, "pd": []}
        r, v = guarded(lambda: self.tree.length())
        if r == "":
            out["len"] = proj.scaled_len(v, self.pscale)
        def pd():
            m = self.tree.phylogenetic_distance_matrix()
            res = []
            tx = list(m.taxon_iter())
            codes = proj.TaxonCodes(self.ns)
            for a, b in itertools.combinations(tx, 2):
                ca, cb = codes.code(a), codes.code(b)
                res.append([min(ca, cb), max(ca, cb), proj.scaled_len(m.patristic_distance(a, b), self.pscale)])
            return res
        r, v = guarded(pd)
        if r == "":
            out["pd"] = sorted(v)
            out["pdok"] = True
        else:
            out["pdok"] = False
        return out

    def iters(self):
        t = self.tree
        g, order = self._post
        ids = dict((id(nd), i + 1) for i, nd in enumerate(order))
        out = {}
        for name, fn in (("pre", t.preorder_node_iter), ("post", t.postorder_node_iter),
                         ("level", t.levelorder_node_iter), ("leaf", t.leaf_node_iter)):
            r, v = guarded(lambda: [ids.get(id(nd), 0) for nd in itertools.islice(fn(), ITER_CAP)])
            out[name] = v if r == "" else [-1]
        return out

    # -------------------------------------------------------------- one logged call
    def call(self, action, a):
        """a: dict of arguments; node arguments are keys.  Returns the event (or None if an argument
        cannot be resolved in the real tree: the real history diverged from the model's)."""
        pre, order = self.cur
        if self.duplabels and a.get("api"):
            a = dict(a, api="")          # labels do not identify taxa here: object API only
        ev = {"action": action, "x": 0, "y": 0, "i": int(a.get("i", 0)), "S": sorted(a.get("S", [])),
              "ub": bool(a.get("ub", False)), "su": bool(a.get("su", False)), "cb": bool(a.get("cb", False)),
              "l1": int(a.get("l1", -1)), "l2": int(a.get("l2", -1)), "f": bool(a.get("f", False)),
              "seed": int(a.get("seed", 0)), "api": a.get("api", ""), "ntaxa": self.ntaxa, "sexp": self.sexp,
              "duplabels": self.duplabels}
        nd = par = None
        if "x" in a:
            nd, ev["x"] = self.node_of_key(a["x"])
            if nd is None:
                return None
            # documented preconditions of the call (a replayed model path may have diverged on the real tree)
            if action in NEEDS_NONSEED and pre["par"][ev["x"] - 1] == 0:
                return None
            if action in NEEDS_INTERNAL and not pre["kids"][ev["x"] - 1]:
                return None
            par = nd._parent_node
            if par is not None:
                ev["y"] = ([i + 1 for i, o in enumerate(order) if o is par] or [0])[0]
        if "y" in a:                      # explicit second node (AddChild: new parent)
            par, ev["y"] = self.node_of_key(a["y"])
            if par is None:
                return None
        fn = self._thunk(action, a, nd, par)
        if fn is None:
            return None
        want_api = self.want_api and action in REORIENT
        if want_api:
            ev["apre"] = self.api_view()
        raised, _ = guarded(fn)
        post, porder = self.snapshot()
        self._post = (post, porder)
        ev["pre"] = pre
        ev["post"] = dict(post, key=list(post["key"]))
        ev["raised"] = raised
        ev["it"] = self.iters()
        if want_api:
            ev["apost"] = self.api_view()
        ev["hasapi"] = bool(want_api)
        ev["stopped"] = raised in ("Hang", "MemoryError", "RecursionError") or suspect(post)
        self.name_new(post, porder, floor=max(pre["key"]))
        self.cur = (post, porder)
        return ev

    def _taxa(self, codes):
        return [self.taxa[c - 1] for c in codes]

    def _thunk(self, action, a, nd, par):
        t = self.tree
        real_len = lambda v: None if v < 0 else v / float(SCALE) * self.factor
        ub, su, cb = bool(a.get("ub", False)), bool(a.get("su", False)), bool(a.get("cb", False))
        f = bool(a.get("f", False))
        if action == "ReseedAt":
            return lambda: t.reseed_at(nd, update_bipartitions=ub, suppress_unifurcations=su, collapse_unrooted_basal_bifurcation=cb)
        if action == "RerootAtNode":
            return lambda: t.reroot_at_node(nd, update_bipartitions=ub, suppress_unifurcations=su, collapse_unrooted_basal_bifurcation=cb)
        if action == "RerootAtEdge":
            return lambda: t.reroot_at_edge(nd.edge, length1=real_len(a["l1"]), length2=real_len(a["l2"]),
                                            update_bipartitions=ub, suppress_unifurcations=su)
        if action == "RerootAtMidpoint":
            return lambda: t.reroot_at_midpoint(update_bipartitions=ub, suppress_unifurcations=su, collapse_unrooted_basal_bifurcation=cb)
        if action == "ToOutgroupPosition":
            return lambda: t.to_outgroup_position(nd, update_bipartitions=ub, suppress_unifurcations=su)
        if action == "Deroot":
            return lambda: t.deroot()
        if action == "CollapseBasalBifurcation":
            return lambda: t.collapse_basal_bifurcation(set_as_unrooted_tree=f)
        if action == "PolytomizeRoot":
            return lambda: t.polytomize_root(set_as_unrooted_tree=f)
        if action == "SuppressUnifurcations":
            return lambda: t.suppress_unifurcations(update_bipartitions=ub)
        if action == "CollapseEdge":
            return lambda: nd.edge.collapse(adjust_collapsed_head_children_edge_lengths=f)
        if action == "CollapseClade":
            return lambda: nd.collapse_clade()
        if action == "CollapseUnweightedEdges":
            if a.get("l1", 0) > 0:
                return lambda: t.collapse_unweighted_edges(threshold=real_len(a["l1"]), update_bipartitions=ub)
            return lambda: t.collapse_unweighted_edges(update_bipartitions=ub)
        if action == "ResolvePolytomies":
            return lambda: t.resolve_polytomies(update_bipartitions=ub)
        if action == "ResolvePolytomiesRng":
            return lambda: t.resolve_polytomies(update_bipartitions=ub, rng=random.Random(a["seed"]))
        if action == "PruneSubtree":
            return lambda: t.prune_subtree(nd, update_bipartitions=ub, suppress_unifurcations=su)
        if action == "PruneTaxa":
            taxa = self._taxa(a["S"])
            if a.get("api") == "labels" and not self.duplabels:
                return lambda: t.prune_taxa_with_labels([x.label for x in taxa], update_bipartitions=ub, suppress_unifurcations=su)
            return lambda: t.prune_taxa(taxa, update_bipartitions=ub, suppress_unifurcations=su)
        if action == "RetainTaxa":
            taxa = self._taxa(a["S"])
            if a.get("api") == "labels" and not self.duplabels:
                return lambda: t.retain_taxa_with_labels([x.label for x in taxa], update_bipartitions=ub, suppress_unifurcations=su)
            return lambda: t.retain_taxa(taxa, update_bipartitions=ub, suppress_unifurcations=su)
        if action == "FilterLeafNodes":
            bad = set(id(x) for x in self._taxa(a["S"]))
            return lambda: t.filter_leaf_nodes(lambda n: id(n.taxon) not in bad, update_bipartitions=ub, suppress_unifurcations=su)
        if action == "PruneLeavesWithoutTaxa":
            return lambda: t.prune_leaves_without_taxa(update_bipartitions=ub, suppress_unifurcations=su)
        if action == "Ladderize":
            return lambda: t.ladderize(ascending=f)
        if action == "Reorder":
            return lambda: t.reorder(ascending=f)
        if action == "RandomlyReorient":
            return lambda: t.randomly_reorient(rng=random.Random(a["seed"]), update_bipartitions=ub)
        if action == "RandomlyRotate":
            return lambda: t.randomly_rotate(rng=random.Random(a["seed"]))
        if action == "ShuffleTaxa":
            return lambda: t.shuffle_taxa(rng=random.Random(a["seed"]))
        if action == "NewChild":
            return lambda: nd.new_child(edge_length=real_len(a.get("l1", -1)))
        if action == "InsertNewChild":
            return lambda: nd.insert_new_child(a["i"], edge_length=real_len(a.get("l1", -1)))
        if action == "InsertChild":
            if par is None:
                return None
            return lambda: par.insert_child(a["i"], nd)
        if action == "RemoveChild":
            if par is None:
                return None
            return lambda: par.remove_child(nd, suppress_unifurcations=su)
        # ---- error-path family: calls the library refuses with a documented error
        if action == "RemoveNonChild":          # y.remove_child(x) where x is not a child of y
            return lambda: par.remove_child(nd, suppress_unifurcations=su)
        if action == "AddChildSelf":
            return lambda: nd.add_child(nd)
        if action == "AddChildParent":
            p0 = nd._parent_node
            if p0 is None:
                return None
            return lambda: nd.add_child(p0)
        if action == "PruneSubtreeForeign":
            return lambda: t.prune_subtree(self.d.Node(), update_bipartitions=ub, suppress_unifurcations=su)
        if action == "PruneSubtreeNone":
            return lambda: t.prune_subtree(None, update_bipartitions=ub, suppress_unifurcations=su)
        if action == "RemoveChildNone":
            return lambda: nd.remove_child(None, suppress_unifurcations=su)
        if action == "RemoveChildForeign":
            return lambda: nd.remove_child(self.d.Node(), suppress_unifurcations=su)
        if action == "ReseedAtForeign":
            return lambda: t.reseed_at(self.d.Node(), update_bipartitions=False, suppress_unifurcations=su, collapse_unrooted_basal_bifurcation=cb)
        if action == "ReAddChild":              # add_child of a node that already is a child: documented no-op
            if par is None:
                return None
            return lambda: par.add_child(nd)
        if action == "RotateChildren":          # set_child_nodes with a rotation of the current children
            def rot():
                c = nd.child_nodes()
                nd.set_child_nodes(c[1:] + c[:1])
            return rot
        if action == "Regraft":                 # remove_child then add_child / insert_child elsewhere (SPR move), one logged call
            newp = par
            oldp = nd._parent_node
            if oldp is None:
                return None
            def spr():
                oldp.remove_child(nd)
                if a.get("i", -1) >= 0:
                    newp.insert_child(a["i"], nd)
                else:
                    newp.add_child(nd)
            return spr
        if action == "ScaleEdges":
            return lambda: t.scale_edges(2)
        if action == "EncodeBipartitions":
            return lambda: t.encode_bipartitions(suppress_unifurcations=su, collapse_unrooted_basal_bifurcation=cb)
        raise core.MachineryError("unknown action %s" % action)


# ------------------------------------------------------------------ model behaviours -> real calls
def args_of_model(name, args):
    """edge label of the TLC graph -> (action, argument dict)"""
    A = list(args)
    if name in ("ReseedAt", "RerootAtNode"):
        return name, {"x": A[0], "ub": A[1], "su": A[2], "cb": A[3]}
    if name == "RerootAtEdge":
        return name, {"x": A[0], "l1": A[1][0], "l2": A[1][1], "ub": A[2], "su": A[3]}
    if name == "RerootAtMidpoint":
        return name, {"ub": A[0], "su": A[1], "cb": A[2]}
    if name == "ToOutgroupPosition":
        return name, {"x": A[0], "ub": A[1], "su": A[2]}
    if name == "Deroot":
        return name, {}
    if name in ("CollapseBasalBifurcation", "Ladderize", "Reorder"):
        return name, {"f": A[0]}
    if name in ("SuppressUnifurcations", "ResolvePolytomies"):
        return name, {"ub": A[0]}
    if name == "CollapseEdge":
        return name, {"x": A[0], "f": A[1]}
    if name in ("CollapseClade",):
        return name, {"x": A[0]}
    if name == "NewChild":
        return name, {"x": A[0], "l1": SCALE}
    if name == "CollapseUnweightedEdges":
        return name, {"l1": A[0], "ub": A[1]}
    if name == "PruneSubtree":
        return name, {"x": A[0], "ub": A[1], "su": A[2]}
    if name in ("PruneTaxa", "RetainTaxa"):
        return name, {"S": sorted(A[0]), "ub": A[1], "su": A[2]}
    if name == "InsertNewChild":
        return name, {"x": A[0], "i": A[1], "l1": -1}
    if name == "InsertChild":
        return name, {"x": A[0], "i": A[1]}
    if name == "RemoveChild":
        return name, {"x": A[0], "su": A[1]}
    if name == "EncodeBipartitions":
        return name, {"su": A[0], "cb": A[1], "ub": True}
    if name == "RemoveNonChild":
        return name, {"x": A[0], "y": A[1], "su": A[2]}
    if name in ("AddChildSelf", "AddChildParent"):
        return name, {"x": A[0]}
    raise core.MachineryError("unknown model action %s" % name)


def run_case(case):
    import dendropy
    limit_memory()
    want_api = case.get("prop") == "C07"
    if case["kind"] == "path":
        w = World(dendropy, case["nested"], case["rooted"], case["ntaxa"], want_api=want_api, encoded=case.get("encoded", False),
                  duplabels=case.get("duplabels", False), sexp=case.get("sexp", 0))
        evs = []
        path = case["path"]
        for k, (name, args) in enumerate(path):
            action, a = args_of_model(name, args)
            ev = w.call(action, a)
            if ev is None:
                return [{"action": "Diverged", "at": k, "of": len(path)}]
            if k == len(path) - 1:
                evs.append(ev)           # the transition under test (its prefix is another case's last edge)
            elif ev["stopped"]:
                return [{"action": "Diverged", "at": k, "of": len(path)}]   # reported where that call is the edge under test
        return evs
    return random_history(dendropy, case, want_api)


# ------------------------------------------------------------------ seeded random histories on larger trees
def random_history(dendropy, case, want_api):
    rng = random.Random(case["seed"])
    nl = case["nleaves"]
    lens = case["lengths"]
    shape = build.random_parents(rng, nl, p_poly=0.25, p_unif=0.08 if case.get("unif") else 0.0)
    nested = build.assign(shape, rng, list(range(nl)), lengths=lens)
    nested[2] = 1 if (case.get("rootlen") or rng.random() < 0.2) else None      # length of the seed node's own edge
    w = World(dendropy, nested, case["rooted"], nl, want_api=want_api, encoded=case.get("encoded", False),
              duplabels=case.get("duplabels", False), sexp=case.get("sexp", 0))
    fam = case["fam"]
    evs = []
    B = lambda: rng.random() < 0.5
    UB = (lambda: True) if case.get("encoded") else B       # histories that keep the encoding current throughout
    for _ in range(case["nops"]):
        g, order = w.cur
        n = g["n"]
        keys = g["key"]
        internal = [keys[i] for i in range(n) if g["kids"][i]]
        nonseed = [keys[i] for i in range(n) if g["par"][i] != 0]
        leaves = [i for i in range(n) if not g["kids"][i]]
        leaf_taxa = sorted(set(g["tx"][i] for i in leaves if g["tx"][i]))
        in_domain = all(g["tx"][i] == 0 for i in range(n) if g["kids"][i])
        act = rng.choice(fam)
        a = None
        nlv = len(leaves)

        def prunable(k):                 # pruning keeps at least three leaves
            i = keys.index(k)
            cnt, st = 0, [i]
            while st:
                u = st.pop()
                if not g["kids"][u]:
                    cnt += 1
                st.extend(c - 1 for c in g["kids"][u])
            return nlv - cnt >= 3
        if act in REORIENT and nlv < 2:
            continue
        if act in ("ReseedAt", "RerootAtNode") and internal:
            a = {"x": rng.choice(internal), "ub": UB(), "su": B(), "cb": B()}
        elif act == "RerootAtEdge" and nonseed:
            l1, l2 = rng.choice([(-1, -1), (SCALE, 2 * SCALE), (0, SCALE), (SCALE // 2, SCALE // 2), (2 * SCALE, -1), (3 * SCALE, 0)])
            a = {"x": rng.choice(nonseed), "l1": l1, "l2": l2, "ub": UB(), "su": B()}
        elif act == "RerootAtMidpoint":
            ok = (in_domain and len(leaves) >= 2 and all(g["tx"][i] for i in leaves) and len(leaf_taxa) == len(leaves)
                  and all(g["len"][i] >= 0 for i in range(n) if g["par"][i] != 0))
            if ok:
                a = {"ub": UB(), "su": B(), "cb": B()}
        elif act == "ToOutgroupPosition" and nonseed:
            a = {"x": rng.choice(nonseed), "ub": UB(), "su": B()}
        elif act == "Deroot":
            a = {}
        elif act in ("CollapseBasalBifurcation", "PolytomizeRoot", "Ladderize", "Reorder"):
            a = {"f": B()}
        elif act in ("SuppressUnifurcations", "ResolvePolytomies"):
            a = {"ub": UB()}
        elif act == "ResolvePolytomiesRng":
            a = {"ub": UB(), "seed": rng.randrange(1 << 20)}
        elif act == "CollapseEdge" and nonseed:
            a = {"x": rng.choice(nonseed), "f": B()}
        elif act == "CollapseClade" and internal:
            a = {"x": rng.choice(internal)}
        elif act == "CollapseUnweightedEdges":
            a = {"l1": rng.choice([0, 0, SCALE]), "ub": UB()}
        elif act == "PruneSubtree" and len(leaf_taxa) > 3:
            x = rng.choice(nonseed + [keys[g["seed"] - 1]] if rng.random() < 0.1 else nonseed)
            if x == keys[g["seed"] - 1] or prunable(x):
                a = {"x": x, "ub": UB(), "su": B()}
        elif act in ("PruneTaxa", "FilterLeafNodes") and len(leaf_taxa) > 3:
            S = rng.sample(leaf_taxa, rng.randint(1, 2))
            a = {"S": S, "ub": UB(), "su": B(), "api": rng.choice(["", "labels"]) if act == "PruneTaxa" else ""}
        elif act == "RetainTaxa" and len(leaf_taxa) > 3:
            S = rng.sample(leaf_taxa, len(leaf_taxa) - rng.randint(1, 2))
            a = {"S": S, "ub": UB(), "su": B(), "api": rng.choice(["", "labels"])}
        elif act == "PruneLeavesWithoutTaxa" and leaf_taxa:
            a = {"ub": UB(), "su": B()}
        elif act in ("RandomlyReorient",):
            a = {"seed": rng.randrange(1 << 20), "ub": UB()}
        elif act in ("RandomlyRotate", "ShuffleTaxa"):
            a = {"seed": rng.randrange(1 << 20)}
        elif act == "NewChild" and internal and n < 30:
            a = {"x": rng.choice(internal), "l1": rng.choice([-1, SCALE])}
        elif act == "InsertNewChild" and internal and n < 30:
            a = {"x": rng.choice(internal), "i": rng.randint(0, 3), "l1": rng.choice([-1, 0])}
        elif act == "InsertChild" and nonseed:
            a = {"x": rng.choice(nonseed), "i": rng.choice([0, 1, 2, 3, 9])}      # 9: beyond the end of the child list
        elif act == "RemoveChild" and len(leaf_taxa) > 3 and nonseed:
            x = rng.choice(nonseed)
            if prunable(x):
                a = {"x": x, "su": B()}
        elif act == "RemoveNonChild" and n >= 3:
            xi = rng.randrange(n)
            cands = [j for j in range(n) if j != xi and g["par"][xi] != j + 1]
            if cands:
                a = {"x": keys[xi], "y": keys[rng.choice(cands)], "su": B()}
        elif act in ("AddChildSelf", "RemoveChildNone", "RemoveChildForeign"):
            a = {"x": rng.choice(keys), "su": B()}
        elif act == "AddChildParent" and nonseed:
            a = {"x": rng.choice(nonseed)}
        elif act in ("PruneSubtreeForeign", "PruneSubtreeNone"):
            a = {"ub": B(), "su": B()}
        elif act == "ReseedAtForeign":
            a = {"su": B(), "cb": B()}
        elif act == "ReAddChild" and nonseed:
            a = {"x": rng.choice(nonseed)}
        elif act == "RotateChildren" and internal:
            a = {"x": rng.choice(internal)}
        elif act == "Regraft" and nonseed and len(internal) > 1:
            x = rng.choice(nonseed)
            xi = keys.index(x)
            below = set()
            st = [xi]
            while st:
                u = st.pop()
                below.add(u)
                st.extend(c - 1 for c in g["kids"][u])
            cands = [keys[i] for i in range(n) if g["kids"][i] and i not in below]
            if cands:
                a = {"x": x, "y": rng.choice(cands), "i": rng.choice([-1, 0, 1])}
        elif act == "EncodeBipartitions":
            a = {"su": B(), "cb": B(), "ub": True}
        if a is None:
            continue
        ev = w.call(act, a)
        if ev is None:
            continue
        evs.append(ev)
        if ev["stopped"]:
            break
    return evs


ALL_FAM = ["ReseedAt", "RerootAtNode", "RerootAtEdge", "RerootAtMidpoint", "ToOutgroupPosition", "Deroot",
           "CollapseBasalBifurcation", "PolytomizeRoot", "SuppressUnifurcations", "CollapseEdge", "CollapseClade",
           "CollapseUnweightedEdges", "ResolvePolytomies", "ResolvePolytomiesRng", "PruneSubtree", "PruneTaxa",
           "FilterLeafNodes", "RetainTaxa", "PruneLeavesWithoutTaxa", "Ladderize", "Reorder", "RandomlyReorient",
           "RandomlyRotate", "ShuffleTaxa", "NewChild", "InsertNewChild", "InsertChild", "RemoveChild",
           "RotateChildren", "ReAddChild", "Regraft", "EncodeBipartitions",
           # refused calls (documented errors): the tree must stay well formed
           "RemoveNonChild", "RemoveNonChild", "AddChildSelf", "AddChildParent", "PruneSubtreeForeign", "PruneSubtreeNone",
           "RemoveChildNone", "RemoveChildForeign", "ReseedAtForeign",
           # weight: reorientations are the mutators with most internal state
           "ReseedAt", "RerootAtNode", "RerootAtEdge", "RerootAtMidpoint", "ToOutgroupPosition", "EncodeBipartitions"]
REORIENT_FAM = ["ReseedAt", "RerootAtNode", "RerootAtEdge", "RerootAtMidpoint", "ToOutgroupPosition", "Ladderize",
                "Reorder", "RandomlyReorient", "RandomlyRotate", "RerootAtMidpoint", "RerootAtEdge"]


def random_cases(ctx, prop, n, nops, salt):
    rng = random.Random(ctx.seed * 1000003 + salt)
    out = []
    pats = [(0, 1, 2), (1,), (1, 2, 3), (None,), (0, 1), (1, 1, 2, None), (0.5, 1, 1.5, 2)]
    for i in range(n):
        pat = pats[i % len(pats)]
        rootlen = False
        if prop == "C07" and None in pat:
            if i % 2:
                pat = (0, 1, 1, 2)
            else:
                pat, rootlen = (None, 1, 2, 1), True      # mixed: some branches without length + a seed edge length
        out.append({"kind": "random", "prop": prop, "seed": rng.randrange(1 << 30), "nleaves": rng.randint(5, 12),
                    "lengths": list(pat), "rooted": (i // 2) % 2 if rootlen else i % 2, "rootlen": rootlen, "nops": nops, "unif": (i % 3 == 0),
                    "encoded": (i % 4 == 1),
                    "duplabels": (prop == "C03" and i % 3 == 2), "sexp": (SCALE_EXPONENTS[i % 5] if prop == "C07" else 0),
                    "fam": REORIENT_FAM if prop == "C07" else ALL_FAM})
    return out


def model_cases(ctx, prop, cfg, tag, max_cases=None):
    """TLC explores MC_TreeOps under cfg (properties checked) and dumps the labelled state graph; one real
    execution per transition: shortest model path to the source state, then the edge."""
    import os
    dot = os.path.join(ctx.work, "treeops_%s.dot" % tag)
    ctx.model("MC_TreeOps", cfg, extra=("-dump", "dot,actionlabels", dot))
    inits, edges, states = tlaval.read_dot(dot)
    os.remove(dot)
    paths, root = tlaval.shortest_paths(inits, edges)
    starts = {}
    for i in inits:
        g = states[i]["g"]
        starts[i] = (nested_of_graph(g), g["rooted"], max([t for t in g["tx"]] + [1]))
    cases = []
    for (u, v, name, args) in edges:
        if u not in paths:
            continue
        nested, rooted, ntaxa = starts[root[u]]
        k = len(cases)
        c = {"kind": "path", "prop": prop, "nested": nested, "rooted": rooted, "ntaxa": ntaxa, "encoded": k % 2 == 1,
             # C03: every third start tree lives in a namespace with duplicate / case-variant labels;
             # C07: the lengths of the start tree and of the arguments are multiplied by an exact power of two
             "duplabels": prop == "C03" and k % 3 == 2, "sexp": SCALE_EXPONENTS[k % 5] if prop == "C07" else 0,
             "path": paths[u] + [(name, args)]}
        cases.append(c)
        if prop == "C07" and name == "RerootAtMidpoint":       # midpoint rooting at every scale
            for e in SCALE_EXPONENTS:
                if e != c["sexp"]:
                    cases.append(dict(c, sexp=e))
    if max_cases is not None and len(cases) > max_cases:
        rng = random.Random(ctx.seed + 77)
        cases = rng.sample(cases, max_cases)
    return cases, len(edges)


def judge(ctx, prop, driven):
    """TLC judges; reference-vs-code differences the properties leave free come back as Drift.* and are
    counted, never failing."""
    diverged = 0
    kept = []
    for case, evs in driven:
        if evs and evs[0].get("action") == "Diverged":
            diverged += 1
            continue
        if evs:
            kept.append((case, evs))
    n0 = len(ctx.verdicts)
    ctx.judge("Trace_TreeOps", kept, env={"PROP": prop}, batch=2500)
    new = ctx.verdicts[n0:]
    del ctx.verdicts[n0:]
    for v in new:
        if v["clause"].startswith("Drift."):
            k = v["clause"] + "/" + str(v.get("class", ""))
            ctx.drift[k] = ctx.drift.get(k, 0) + 1
            smp = ctx.extra.setdefault("drift_samples", {})
            if k not in smp:
                e = v["event"]
                smp[k] = {"action": e["action"], "x": e["x"], "S": e["S"], "ub": e["ub"], "su": e["su"], "cb": e["cb"],
                          "pre": {f: e["pre"][f] for f in ("kids", "len", "tx", "rooted", "seed", "key")},
                          "post": {f: e["post"][f] for f in ("kids", "len", "tx", "rooted", "seed", "key")}, "raised": e["raised"]}
        else:
            ctx.verdicts.append(v)
    ctx.extra["replay_paths_diverged"] = ctx.extra.get("replay_paths_diverged", 0) + diverged
    return kept


# ------------------------------------------------------------------ check orchestration shared by C03.py / C07.py
def c03_cfgs(quick):
    """(cfg, tag, number of transitions replayed on real trees: None = all, else a seeded sample).
    TLC checks the properties on every transition in any case."""
    if quick:
        return [("MC_TreeOps_C03_d1.cfg", "d1", 20000), ("MC_TreeOps_C03_d1u.cfg", "d1u", 6000), ("MC_TreeOps_C03_d2.cfg", "d2", 12000)]
    return [("MC_TreeOps_C03_d1.cfg", "d1", None), ("MC_TreeOps_C03_d1u.cfg", "d1u", None), ("MC_TreeOps_C03_d2t.cfg", "d2t", 100000),
            ("MC_TreeOps_C03_d3t.cfg", "d3t", 40000), ("MC_TreeOps_C03_d3t4.cfg", "d3t4", 40000)]


def c07_cfgs(quick):
    if quick:
        return [("MC_TreeOps_C07_d1.cfg", "d1", 20000), ("MC_TreeOps_C07_d2.cfg", "d2", 12000)]
    return [("MC_TreeOps_C07_d1.cfg", "d1", None), ("MC_TreeOps_C07_d1t.cfg", "d1t", 120000), ("MC_TreeOps_C07_d2t.cfg", "d2t", 100000),
            ("MC_TreeOps_C07_d3t.cfg", "d3t", 60000)]


def _core(g):
    return [g["kids"], g["len"], g["tx"], g["rooted"], g["seed"]]


def drive_and_judge(ctx, prop, cases, rnd, chunk=40000):
    import hashlib
    allc = list(cases) + list(rnd)
    nsample = 0
    for lo in range(0, len(allc), chunk):
        part = allc[lo:lo + chunk]
        driven = ctx.drive(part, run_case, chunksize=64)
        n0 = len(ctx.verdicts)
        kept = judge(ctx, prop, driven)
        for case, evs in kept:
            for e in evs:
                if e["raised"] != "" or _core(e["pre"]) != _core(e["post"]):
                    k = core.dumps([e["action"], e["pre"]["key"][e["x"] - 1] if e["x"] else 0, e["i"], e["S"], e["ub"], e["su"],
                                    e["cb"], e["l1"], e["l2"], e["f"], _core(e["pre"])])
                    ctx.add_nontrivial(hashlib.sha1(k.encode()).hexdigest()[:16])
            if nsample < 2 and evs and case["kind"] == ("path" if nsample == 0 else "random"):
                e = evs[-1]
                ctx.add_sample({"case_kind": case["kind"], "path": case.get("path"), "seed": case.get("seed"),
                                "event": {k: e[k] for k in e if k not in ("it",)}})
                nsample += 1
        # bound memory: keep the logged events only for histories with a failing clause (needed for replay files)
        bad_tids = set(v["tid"] for v in ctx.verdicts)
        ctx.events = [e for e in ctx.events if e["tid"] in bad_tids]
