"""C13 helpers: deterministic renderers of the abstract documents of
spec/ReadRoutes.tla to NEXUS / Newick / NeXML text (NOT DendroPy's writers),
purely syntactic projections of what the reading routes return, and the
seeded generator of larger random documents.  No oracle: nothing here decides
what a route should have returned.
"""
from . import proj, build

NOOFF = 99


# ---------------------------------------------------------------- rendering
def ctext(c):
    return "&%s=%s" % (c["k"], c["v"]) if c["m"] else c["k"]


def brackets(cs):
    return "".join("[%s]" % ctext(c) for c in cs)


def fmt_len(v):
    if v == 1:
        return "2.5e-01"          # exponent notation (a token with a hyphen) for 0.25
    return "%g" % (v / float(proj.LSCALE))


def kids_of(p):
    """children lists (1-based ids) of a 1-based preorder parent array"""
    n = len(p)
    kids = [[] for _ in range(n + 1)]
    for i in range(2, n + 1):
        kids[p[i - 1]].append(i)
    return kids


def leaf_index(p):
    """node id -> position among the leaves (left to right)"""
    kids = kids_of(p)
    out, k = {}, 0
    for x in range(1, len(p) + 1):      # preorder = left to right for leaves
        if not kids[x]:
            out[x] = k
            k += 1
    return out


def newick_of(tree, token_of, cin):
    """tree: [p, lf, il, ln]; cin: list of {at, c}; token_of(label) -> text of a leaf"""
    p, lf, il, ln = tree["p"], tree["lf"], tree["il"], tree["ln"]
    kids = kids_of(p)
    li = leaf_index(p)
    com = {}
    for e in cin:
        com.setdefault(e["at"], []).append(e["c"])

    def rec(x):
        s = ""
        if kids[x]:
            s += "(" + ",".join(rec(c) for c in kids[x]) + ")"
            s += il[x - 1]
        else:
            s += token_of(lf[li[x]])
        s += brackets(com.get(x, []))
        if ln[x - 1] >= 0:
            s += ":" + fmt_len(ln[x - 1])
        return s
    return rec(1)


def tree_prefix(s):
    out = ""
    if s["rt"]:
        out += "[&%s] " % s["rt"]
    if s["w"][1] != 0:
        out += "[&W %d/%d] " % (s["w"][0], s["w"][1])
    out += brackets(s["cpost"])
    return out


def render_nexus(doc):
    taxa = doc["taxa"]
    ntb = 0
    L = ["#NEXUS", "", "BEGIN TAXA;", "    DIMENSIONS NTAX=%d;" % len(taxa), "    TAXLABELS %s;" % " ".join(taxa), "END;", ""]
    for b in doc["blocks"]:
        if b["kind"] == "chars":
            ncol = len(b["rows"][0]["seq"]) if b["rows"] else 0
            L += ["BEGIN CHARACTERS;"]
            if b["title"]:
                L += ["    TITLE %s;" % b["title"]]
            if b.get("type", "dna") == "standard" and b.get("implicit_type"):
                # no DATATYPE: the NEXUS default (STANDARD) applies, whichever class or route reads the block
                fmtline = "    FORMAT GAP=- MISSING=?;"
            elif b.get("type", "dna") == "standard":
                fmtline = '    FORMAT DATATYPE=STANDARD SYMBOLS="01" GAP=- MISSING=?;'
            else:
                fmtline = "    FORMAT DATATYPE=DNA GAP=- MISSING=?;"
            L += ["    DIMENSIONS NCHAR=%d;" % ncol, fmtline, "    MATRIX"]
            for row in b["rows"]:
                L += ["        %s    %s" % (row["lab"], row["seq"])]
            L += ["    ;", "END;", ""]
            continue
        if b["kind"] == "sets":
            L += ["BEGIN SETS;"]
            if b["link"]:
                L += ["    LINK CHARACTERS = %s;" % b["link"]]
            for cs in b["charsets"]:
                L += ["    CHARSET %s = %s;" % (cs["name"], cs["spec"])]
            L += ["END;", ""]
            continue
        L += ["BEGIN TREES;"]
        if b["title"]:
            L += ["    TITLE %s;" % b["title"]]
        ntb += 1
        if b["translate"]:
            # no table is the identity and the tables of different blocks differ: token j of the k-th TREES block denotes taxon j+k (cyclically)
            n = len(taxa)
            table = [taxa[(j + ntb) % n] for j in range(n)]
            L += ["    TRANSLATE"]
            L += ["        " + ",\n        ".join("%d %s" % (j + 1, lab) for j, lab in enumerate(table)) + ";"]
            token_of = (lambda tb: (lambda lab: str(tb.index(lab) + 1)))(table)
        else:
            token_of = lambda lab: lab
        number_of = lambda lab: str(taxa.index(lab) + 1)     # taxon number = position in the TAXA block
        if b["lead"]:
            L += ["    " + brackets(b["lead"])]
        for s in b["stmts"]:
            cpre = s["cpre"]
            L += ["    TREE %s%s %s= %s%s; %s" % (brackets(cpre[:1]) + (" " if cpre[:1] else ""), s["name"],
                                                (brackets(cpre[1:]) + " ") if cpre[1:] else "",
                                                tree_prefix(s),
                                                newick_of(s["tree"], number_of if (not b["translate"] and s.get("sym") == "number") else token_of, s["cin"]),
                                                brackets(s["caft"]))]
        L += ["END;", ""]
    return "\n".join(L)


def render_newick(doc):
    tb = [b for b in doc["blocks"] if b["kind"] == "trees"]
    L = []
    for s in tb[0]["stmts"]:
        tok = (lambda lab: str(doc["taxa"].index(lab) + 1)) if s.get("sym") == "number" else (lambda lab: lab)    # plain numeric labels in Newick
        L += ["%s%s%s; %s" % (brackets(s["cpre"]), tree_prefix(s), newick_of(s["tree"], tok, s["cin"]), brackets(s["caft"]))]
    return "\n".join(L) + "\n"


def xml_esc(s):
    return s.replace("&", "&amp;").replace("<", "&lt;").replace('"', "&quot;")


def block_labels(b):
    out = []
    for s in b["stmts"]:
        for lab in s["tree"]["lf"]:
            if lab not in out:
                out.append(lab)
    return out


def otus_lists(doc, per_block):
    """the <otus> blocks of the NeXML rendering: one for everything, or (per_block) one per TREES block holding the
    labels that block uses (the first one also holds the labels of the matrix rows); later blocks repeat labels of
    earlier ones, possibly as case variants"""
    if not per_block:
        return [list(doc["taxa"])]
    tb = [b for b in doc["blocks"] if b["kind"] == "trees"]
    lists = []
    for k, b in enumerate(tb):
        labs = block_labels(b)
        if k == 0:
            for cb in doc["blocks"]:
                if cb["kind"] == "chars":
                    for row in cb["rows"]:
                        if row["lab"] not in labs:
                            labs.append(row["lab"])
        if not labs:
            labs = [t for t in doc["taxa"] if t != "A"]
        lists.append(labs)
    return lists or [list(doc["taxa"])]


def render_nexml2(doc):
    return render_nexml(doc, per_block=True)


def render_nexml(doc, per_block=False):
    lists = otus_lists(doc, per_block)
    mid = [0]

    def meta(c, ind):
        mid[0] += 1
        return '%s<meta xsi:type="nex:LiteralMeta" property="dendropy:%s" content="%s" id="meta%d" />' % (ind, c["k"], xml_esc(c["v"]), mid[0])
    L = ['<?xml version="1.0" encoding="ISO-8859-1"?>',
         '<nex:nexml version="0.9" xsi:schemaLocation="http://www.nexml.org/2009 ../xsd/nexml.xsd"',
         '    xmlns:dendropy="http://pypi.org/project/DendroPy/" xmlns="http://www.nexml.org/2009"',
         '    xmlns:xsi="http://www.w3.org/2001/XMLSchema-instance" xmlns:xml="http://www.w3.org/XML/1998/namespace"',
         '    xmlns:nex="http://www.nexml.org/2009" xmlns:xsd="http://www.w3.org/2001/XMLSchema#">',
         ]
    for q, labs in enumerate(lists):
        L += ['    <otus id="tax%d">' % (q + 1)]
        for j, lab in enumerate(labs):
            L += ['        <otu id="o%d_%d" label="%s" />' % (q + 1, j + 1, xml_esc(lab))]
        L += ['    </otus>']
    taxa = lists[0]
    nb = nc = 0
    for b in doc["blocks"]:
        if b["kind"] == "chars":
            nc += 1
            ncol = len(b["rows"][0]["seq"]) if b["rows"] else 0
            std = b.get("type", "dna") == "standard"
            L += ['    <characters id="chars%d"%s otus="tax1" xsi:type="nex:%s">' % (nc, (' label="%s"' % xml_esc(b["title"])) if b["title"] else "",
                                                                                    "StandardSeqs" if std else "DnaSeqs"),
                  '        <format>', '            <states id="st%d">' % nc]
            syms = (("0", "s0"), ("1", "s1"), ("-", "sgap")) if std else (("A", "sA"), ("C", "sC"), ("G", "sG"), ("T", "sT"), ("-", "sgap"))
            for sym, sid in syms:
                L += ['                <state id="%s%d" symbol="%s" />' % (sid, nc, sym)]
            L += ['                <uncertain_state_set id="smiss%d" symbol="?">' % nc]
            for sym, sid in syms:
                L += ['                    <member state="%s%d" />' % (sid, nc)]
            L += ['                </uncertain_state_set>', '            </states>']
            for k in range(ncol):
                L += ['            <char id="ch%d_%d" states="st%d" />' % (nc, k + 1, nc)]
            L += ['        </format>', '        <matrix>']
            for j, row in enumerate(b["rows"]):
                L += ['            <row id="row%d_%d" otu="o1_%d"><seq>%s</seq></row>' % (nc, j + 1, lists[0].index(row["lab"]) + 1, row["seq"])]
            L += ['        </matrix>', '    </characters>']
            continue
        if b["kind"] != "trees":
            continue
        nb += 1
        q = nb if (per_block and nb <= len(lists)) else 1
        taxa = lists[q - 1]
        L += ['    <trees id="trees%d"%s otus="tax%d">' % (nb, (' label="%s"' % xml_esc(b["title"])) if b["title"] else "", q)]
        for i, s in enumerate(b["stmts"]):
            t = s["tree"]
            p, lf, il, ln = t["p"], t["lf"], t["il"], t["ln"]
            kids = kids_of(p)
            li = leaf_index(p)
            pref = "%d_%d_" % (nb, i + 1)
            L += ['        <tree id="tr%s"%s xsi:type="nex:FloatTree">' % (pref, (' label="%s"' % xml_esc(s["name"])) if s["name"] else "")]
            for c in list(s["cpost"]) + list(s["cpre"]):
                if c["m"]:
                    L += [meta(c, "            ")]
            ncom = {}
            for e in s["cin"]:
                if e["c"]["m"]:
                    ncom.setdefault(e["at"], []).append(e["c"])
            for x in range(1, len(p) + 1):
                attrs = ' id="n%s%d"' % (pref, x)
                if kids[x]:
                    if il[x - 1]:
                        attrs += ' label="%s"' % xml_esc(il[x - 1])
                else:
                    attrs += ' otu="o%d_%d"' % (q, taxa.index(lf[li[x]]) + 1)
                if x == 1 and s["rt"] == "R":
                    attrs += ' root="true"'
                if x in ncom:
                    L += ['            <node%s>' % attrs] + [meta(c, "                ") for c in ncom[x]] + ['            </node>']
                else:
                    L += ['            <node%s />' % attrs]
            if ln[0] >= 0:
                L += ['            <rootedge id="e%s1" target="n%s1" length="%s" />' % (pref, pref, fmt_len(ln[0]))]
            for x in range(2, len(p) + 1):
                lat = (' length="%s"' % fmt_len(ln[x - 1])) if ln[x - 1] >= 0 else ""
                L += ['            <edge id="e%s%d" source="n%s%d" target="n%s%d"%s />' % (pref, x, pref, p[x - 1], pref, x, lat)]
            L += ['        </tree>']
        L += ['    </trees>']
    L += ['</nex:nexml>', '']
    return "\n".join(L)


RENDER = {"nexus": render_nexus, "newick": render_newick, "nexml": render_nexml, "nexml2": render_nexml2}
SCHEMA = {"nexus": "nexus", "newick": "newick", "nexml": "nexml", "nexml2": "nexml"}


def formats_of(doc):
    """the schemas in which the document can be written down (syntactic conditions only)"""
    tb = [b for b in doc["blocks"] if b["kind"] == "trees"]
    cb = [b for b in doc["blocks"] if b["kind"] == "chars"]
    out = ["nexus"]
    if len(tb) == 1 and not tb[0]["translate"] and tb[0]["stmts"]:   # (CHARACTERS blocks have no Newick form and are left out)
        out.append("newick")
    def distinct(labs):
        low = [t.lower() for t in labs]
        return len(set(low)) == len(low)
    if not any(b["translate"] for b in tb):
        if distinct(doc["taxa"]):
            out.append("nexml")
        # "nexml2": NeXML with one <otus> block per TREES block (labels shared between the blocks, possibly as case variants)
        if len(tb) >= 2 and all(distinct(labs) for labs in otus_lists(doc, True)):
            out.append("nexml2")
    return out


# ---------------------------------------------------------------- projections
def _anns(obj):
    try:
        a = obj.annotations
    except Exception:
        return []
    out = []
    for x in a:
        v = x.value
        out.append([str(x.name), v if isinstance(v, str) else repr(v)])
    return out


def tree_view(tree, codes):
    """purely syntactic projection of one delivered tree"""
    ids = {}
    g = proj.tree_graph(tree, codes=codes, node_ids=ids)
    order = ids.pop("__order__", [])
    w = getattr(tree, "weight", None)
    if w is None:
        wr = [0, 0]
    else:
        r = proj.rat(w, max_den=10 ** 4)
        wr = [r[0], r[1]] if r[2] else [-1, -1]
    lab = getattr(tree, "label", None)
    return {"g": g,
            "txl": [(nd.taxon.label if getattr(nd, "taxon", None) is not None and nd.taxon.label is not None else "") for nd in order],
            "name": lab if isinstance(lab, str) else "", "hasname": lab is not None,
            "w": wr,
            "com": [str(c) for c in (getattr(tree, "comments", None) or [])],
            "ann": _anns(tree),
            "ncom": [[str(c) for c in (getattr(nd, "comments", None) or [])] for nd in order],
            "nann": [_anns(nd) for nd in order],
            "elab": [(nd._edge.label if getattr(nd, "_edge", None) is not None and isinstance(nd._edge.label, str) else "") for nd in order]}


def matrix_view(m, codes):
    lab = getattr(m, "label", None)
    rows = []
    for tx in m:
        rows.append({"tx": codes.code(tx), "txl": tx.label if tx.label is not None else "", "seq": m[tx].symbols_as_string()})
    sets = []
    for name in sorted(getattr(m, "character_subsets", {}) or {}):
        cs = m.character_subsets[name]
        sets.append([str(name), [int(i) for i in getattr(cs, "character_indices", [])]])
    return {"name": lab if isinstance(lab, str) else "", "hasname": lab is not None, "type": str(getattr(m, "data_type", "")), "rows": rows,
            "sets": sets}


class Pool(object):
    """interning of identical projections (compression only: TLC compares the values)"""

    def __init__(self, dumps):
        self.items = []
        self.index = {}
        self.dumps = dumps

    def add(self, v):
        k = self.dumps(v)
        i = self.index.get(k)
        if i is None:
            self.items.append(v)
            i = len(self.items)
            self.index[k] = i
        return i


# ---------------------------------------------------------------- random documents
def parents_of_nested(nested):
    """nested form of vlib.build -> 1-based preorder parent array"""
    p = []

    def rec(nd, par):
        p.append(par)
        me = len(p)
        for c in nd[3]:
            rec(c, me)
    rec(nested, 0)
    return p


def random_doc(rng):
    ntax = rng.randint(4, 8)
    base = ["a", "b", "c", "d", "e", "f", "g", "h"][:ntax]
    style = rng.random()
    if style < 0.3:
        base = [("sp_%s" % x) if rng.random() < 0.5 else x for x in base]
    taxa = list(base)

    def comment():
        if rng.random() < 0.4:
            return {"m": True, "k": rng.choice(["k", "m", "n", "q"]) + str(rng.randint(1, 3)), "v": rng.choice(["v", "1", "2.5", "x"])}
        return {"m": False, "k": rng.choice(["c", "note", "z"]) + str(rng.randint(1, 9)), "v": ""}

    def comments(pn):
        out = []
        while rng.random() < pn and len(out) < 3:
            out.append(comment())
        return out
    counter = [0]

    def stmt(b, i):
        counter[0] += 1
        nl = rng.randint(3, ntax)
        labs = rng.sample(taxa, nl)
        p = parents_of_nested(build.random_parents(rng, nl, p_poly=0.3, p_unif=0.0))
        kids = kids_of(p)
        n = len(p)
        il = [("n%d" % x if (kids[x] and rng.random() < 0.3) else "") for x in range(1, n + 1)]
        mode = rng.random()
        ln = [(-1 if mode < 0.3 else rng.choice([0, 1, 2, 4, 6, 8, 12])) for _ in range(n)]
        if mode >= 0.3 and rng.random() < 0.5:
            ln[0] = -1
        if n >= 2:
            ln[1] = 4 * counter[0]
        cin = []
        for x in range(1, n + 1):
            if rng.random() < 0.12:
                cin.append({"at": x, "c": comment()})
        w = [0, 0]
        if rng.random() < 0.4:
            w = rng.choice([[1, 2], [1, 4], [2, 1], [3, 4], [1, 1], [0, 1], [0, 3]])
        return {"name": "t%dx%d" % (b, i), "sym": "number" if rng.random() < 0.3 else "label", "rt": rng.choice(["", "", "R", "U"]), "w": w,
                "cpre": comments(0.25), "cpost": comments(0.3), "cin": cin, "caft": comments(0.25),
                "tree": {"p": p, "lf": labs, "il": il, "ln": ln}}
    nb = rng.randint(1, 4)
    blocks = []
    for b in range(1, nb + 1):
        ns = rng.choice([0, 1, 2, 3, 5])
        blocks.append({"kind": "trees", "title": "" if rng.random() < 0.5 else "tb%d" % b, "translate": rng.random() < 0.4,
                       "lead": comments(0.3), "stmts": [stmt(b, i) for i in range(1, ns + 1)]})
    nchar = rng.choice([0, 1, 2, 3])
    for k in range(nchar):
        ncol = rng.randint(2, 6)
        ctype = "standard" if rng.random() < 0.4 else "dna"
        alpha = "01-?" if ctype == "standard" else "ACGT-?"
        rows = [{"lab": lab, "seq": "".join(rng.choice(alpha) for _ in range(ncol))} for lab in taxa]
        at = rng.randint(0, len(blocks))
        blocks.insert(at, {"kind": "chars", "title": "cm%d" % (k + 1), "type": ctype, "rows": rows})
        if ctype == "standard" and (k + ncol) % 2:
            blocks[at]["implicit_type"] = True
        if rng.random() < 0.6:
            specs = [("every", "ALL"), ("first", "1-2"), ("rest", "2-."), ("one", "1"), ("two", "1 2")]
            rng.shuffle(specs)
            blocks.insert(at + 1, {"kind": "sets", "link": "cm%d" % (k + 1),
                                   "charsets": [{"name": n_, "spec": sp} for n_, sp in specs[:rng.randint(1, 3)]]})
    return {"taxa": taxa, "blocks": blocks}
