"""Running TLC: exhaustive model runs, simulation, and trace-judge runs.

TLC is the only judge in this framework (DESIGN section 0).  This module only
starts it, collects its statistics and hands back what it printed / wrote.
"""
import os
import re
import subprocess
import time

VERIF = os.path.dirname(os.path.dirname(os.path.dirname(os.path.abspath(__file__))))
SPEC_DIR = os.path.join(VERIF, "spec")
TLA_JARS = "/opt/veriftools/tla/tla2tools.jar:/opt/veriftools/tla/CommunityModules-deps.jar"


# ---- machine-wide throttle: many checks may run at once (builders, seeded runs); without a cap the JVMs
# exhaust memory and get OOM-killed, which would look like machinery failures.  flock()ed slot files.
import fcntl
import random as _random

# machine-wide (not per checkout): snapshots and worktrees of /verif share the same slots; created on demand
SLOT_DIR = os.environ.get("VERIF_SLOT_DIR", "/tmp/verif_tlc_slots")
MODEL_SLOTS = int(os.environ.get("VERIF_MODEL_SLOTS", "3"))
JUDGE_SLOTS = int(os.environ.get("VERIF_JUDGE_SLOTS", "10"))


def _acquire_slot(kind, n):
    os.makedirs(SLOT_DIR, exist_ok=True)
    while True:
        for k in range(n):
            f = open(os.path.join(SLOT_DIR, "%s_%d.lock" % (kind, k)), "w")
            try:
                fcntl.flock(f, fcntl.LOCK_EX | fcntl.LOCK_NB)
                return f
            except (BlockingIOError, OSError):
                f.close()
        time.sleep(0.3 + _random.random() * 0.7)


class MachineryError(Exception):
    """TLC crashed, a model-level property failed, or output was unparsable (exit 2)."""


_RE_STATES = re.compile(r"(\d+) states generated, (\d+) distinct states found, (\d+) states left on queue")
_RE_DEPTH = re.compile(r"The depth of the complete state graph search is (\d+)")
_RE_SIMSTATES = re.compile(r"(\d+) states checked")


class TlcResult(object):
    def __init__(self):
        self.cmd = ""
        self.stdout = ""
        self.returncode = None
        self.generated = 0
        self.distinct = 0
        self.depth = 0
        self.wall_s = 0.0
        self.violated = None   # name of violated invariant / property, if any
        self.coverage = {}     # action name -> (distinct, total) when -coverage was requested

    @property
    def ok(self):
        return self.returncode == 0

    def tail(self, n=60):
        return "\n".join(self.stdout.splitlines()[-n:])

    def as_dict(self):
        d = {"cmd": self.cmd, "generated": self.generated, "distinct": self.distinct,
             "depth": self.depth, "wall_s": round(self.wall_s, 2), "returncode": self.returncode}
        if self.coverage:
            # -coverage 1: per action (distinct states found, states generated); an action that was never taken
            # means whatever is claimed about it was never exercised on the model (vacuity, DESIGN section 7)
            d["action_coverage"] = {k: list(v) for k, v in sorted(self.coverage.items())}
            d["actions_never_taken"] = sorted(k for k, v in self.coverage.items() if v[1] == 0)
        return d


def _parse(res):
    out = res.stdout
    m = None
    for m in _RE_STATES.finditer(out):
        pass
    if m:
        res.generated, res.distinct = int(m.group(1)), int(m.group(2))
    else:
        for m in _RE_SIMSTATES.finditer(out):
            pass
        if m:
            res.generated = res.distinct = int(m.group(1))
    m = _RE_DEPTH.search(out)
    if m:
        res.depth = int(m.group(1))
    m = re.search(r"Error: Invariant (\S+) is violated", out)
    if m:
        res.violated = m.group(1)
    m2 = re.search(r"Error: Action property (\S+) is violated", out) or \
        re.search(r"Error: Temporal properties were violated", out)
    if m2 and not res.violated:
        res.violated = m2.group(1) if m2.groups() else "temporal"
    # coverage lines:  <Name line 12, col 1 to line 14, col 30 of module X>: 12:345
    for cm in re.finditer(r"^<(\w+) line \d+, col \d+ to line \d+, col \d+ of module (\w+)>: (\d+):(\d+)", out, re.M):
        res.coverage[cm.group(1)] = (int(cm.group(3)), int(cm.group(4)))


def run_tlc(module, cfg, workdir, workers=16, env=None, extra=(), timeout=3600,
            heap="4g", spec_dir=SPEC_DIR, deque=False, simulate=None, coverage=False):
    """Run TLC on spec/<module>.tla with spec/<cfg>.  Never raises on a property
    violation; the caller decides what a non-zero return code means."""
    os.makedirs(workdir, exist_ok=True)
    meta = os.path.join(workdir, "meta_%s_%d_%d_%s" % (module, os.getpid(), int(time.time() * 1000) % 100000000,
                                                       os.urandom(3).hex()))
    jopts = ["-XX:+UseParallelGC", "-Xmx" + heap, "-Djava.io.tmpdir=" + workdir]
    if deque:
        jopts.append("-Dtlc2.tool.queue.IStateQueue=StateDeque")
    cmd = ["java"] + jopts + ["-cp", TLA_JARS, "tlc2.TLC", "-workers", str(workers),
                               "-metadir", meta, "-noGenerateSpecTE", "-config", cfg]
    if simulate:
        cmd += ["-simulate", simulate]
    if coverage:
        cmd += ["-coverage", "1"]
    cmd += list(extra) + [module + ".tla"]
    e = dict(os.environ)
    if env:
        e.update({k: str(v) for k, v in env.items()})
    res = TlcResult()
    res.cmd = " ".join(cmd)
    slot = _acquire_slot("judge" if workers == 1 else "model", JUDGE_SLOTS if workers == 1 else MODEL_SLOTS)
    t0 = time.time()
    try:
        p = subprocess.run(cmd, cwd=spec_dir, env=e, stdout=subprocess.PIPE, stderr=subprocess.STDOUT,
                           timeout=timeout, universal_newlines=True)
        res.stdout, res.returncode = p.stdout, p.returncode
    except subprocess.TimeoutExpired as te:
        res.stdout = (te.stdout or b"").decode("utf8", "replace") if isinstance(te.stdout, bytes) else (te.stdout or "")
        res.returncode = -9
        res.stdout += "\n[vlib] TLC timed out after %ss" % timeout
    finally:
        slot.close()
    res.wall_s = time.time() - t0
    _parse(res)
    # the metadir only holds fingerprints / queues; remove it straight away (disk is limited)
    subprocess.call(["rm", "-rf", meta])
    return res


def run_apalache(module, init, inv, length, nxt="Next", workdir="/tmp", timeout=600, spec_dir=SPEC_DIR):
    """apalache-mc check --init --inv --length --next on spec/<module>.tla (symbolic, bounded by `length` steps from
    ANY state satisfying `init`: with init = IndInit and length = 1 this is the inductive step).
    Returns (outcome, wall_s, tail) with outcome in {"NoError", "Error", "Failed"}."""
    out = os.path.join(workdir, "apa_%s_%s_%s_%d_%s" % (module, inv, nxt, os.getpid(), os.urandom(3).hex()))
    cmd = ["apalache-mc", "check", "--init=" + init, "--inv=" + inv, "--length=%d" % length, "--next=" + nxt,
           "--out-dir=" + out, "--run-dir=" + out, module + ".tla"]
    slot = _acquire_slot("model", MODEL_SLOTS)
    t0 = time.time()
    try:
        p = subprocess.run(cmd, cwd=spec_dir, stdout=subprocess.PIPE, stderr=subprocess.STDOUT, timeout=timeout,
                           universal_newlines=True, env=dict(os.environ, JVM_ARGS="-Xmx2g"))
        txt = p.stdout
    except subprocess.TimeoutExpired:
        txt = "[vlib] apalache timed out"
    finally:
        slot.close()
    subprocess.call(["rm", "-rf", out])
    if "The outcome is: NoError" in txt and "EXITCODE: OK" in txt:
        oc = "NoError"
    elif "The outcome is: Error" in txt and "EXITCODE: ERROR (12)" in txt:
        oc = "Error"
    else:
        oc = "Failed"
    return oc, time.time() - t0, txt[-1500:]
