"""Check orchestration: model runs, driving the real library, TLC trace judging,
known-finding matching, replay files, evidence.

The Python side contains no oracle.  It drives the library, projects objects
to abstract JSON states, hands them to TLC (spec/Trace_*.tla) and turns TLC's
verdicts into VIOLATION / KNOWN-FINDING lines.
"""
import hashlib
import json
import multiprocessing
import os
import shutil
import sys
import time
import traceback

from . import tlc as _tlc
from .tlc import MachineryError, VERIF

NCPU = int(os.environ.get("VERIF_CPUS", "16"))


def repo_root():
    return os.environ.get("VERIF_REPO", "/repo")


def bind_repo():
    """Make `import dendropy` resolve to $VERIF_REPO/src (current working tree)."""
    src = os.path.join(repo_root(), "src")
    if sys.path[0] != src:
        sys.path.insert(0, src)
    import dendropy
    f = os.path.abspath(dendropy.__file__)
    if not f.startswith(os.path.abspath(src) + os.sep):
        raise MachineryError("dendropy imported from %s, expected under %s" % (f, src))
    return dendropy


def _jsonable(o):
    if isinstance(o, (set, frozenset)):
        return sorted(o)
    if isinstance(o, tuple):
        return list(o)
    raise TypeError("not JSON serialisable: %r" % (o,))


def dumps(o):
    return json.dumps(o, default=_jsonable, sort_keys=True, separators=(",", ":"))


def _contains_null(o):
    if o is None:
        return True
    if isinstance(o, dict):
        return any(_contains_null(v) for v in o.values())
    if isinstance(o, (list, tuple)):
        return any(_contains_null(v) for v in o)
    return False


class Ctx(object):
    def __init__(self, prop, tier, seed, replay=None):
        self.prop = prop
        self.tier = tier
        self.seed = seed
        self.replay = replay
        self.t0 = time.time()
        self.work = os.path.join(VERIF, ".work", "%s_%s_%d" % (prop, tier, os.getpid()))
        shutil.rmtree(self.work, ignore_errors=True)
        os.makedirs(self.work)
        self.model_runs = []         # TlcResult dicts
        self.states = 0
        self.transitions = 0
        self.judged_events = 0
        self.judge_runs = []
        self.cases = []              # case descriptors, index = tid
        self.events = []             # all judged events (in judged order)
        self.verdicts = []           # failing verdicts from TLC
        self.nontrivial = set()
        self.samples = []
        self.drift = {}
        self.notes = []
        self.assumptions = []
        self.extra = {}
        self.rule = ""
        self.exhaustive = False
        self.actions_seen = {}
        self.expected_model_violations = []

    @property
    def quick(self):
        return self.tier == "quick"

    def log(self, msg):
        sys.stdout.write("[%s %6.1fs] %s\n" % (self.prop, time.time() - self.t0, msg))
        sys.stdout.flush()

    # ------------------------------------------------------------------ model runs
    def model(self, module, cfg, workers=NCPU, env=None, extra=(), timeout=3000, heap="5g",
              expect_violation=None, simulate=None, coverage=False, count=True, require_actions=()):
        """Run TLC on the bounded model.  The reference design must satisfy the
        properties (else the check is broken: MachineryError).  With
        expect_violation=<name> the run must *find* that violation (as-shipped
        configurations, DESIGN section 7)."""
        if expect_violation and workers == NCPU:
            # deterministic search order: with many workers TLC may report a different first problem
            # (another violation, or an evaluation error on a state explored concurrently) from run to run
            workers = 1
        r = _tlc.run_tlc(module, cfg, self.work, workers=workers, env=env, extra=extra, timeout=timeout,
                         heap=heap, simulate=simulate, coverage=coverage)
        d = r.as_dict()
        d.update({"module": module, "cfg": cfg, "expect_violation": expect_violation, "violated": r.violated})
        self.model_runs.append(d)
        if expect_violation:
            if r.violated != expect_violation and not (expect_violation == "temporal" and r.violated):
                raise MachineryError("%s/%s: expected TLC to report %s violated, got rc=%s violated=%s\n%s"
                                     % (module, cfg, expect_violation, r.returncode, r.violated, r.tail(40)))
            self.expected_model_violations.append("%s/%s: %s" % (module, cfg, r.violated))
            self.log("model %s %s: violation %s found as expected (%d distinct states, %.1fs)"
                     % (module, cfg, r.violated, r.distinct, r.wall_s))
        else:
            if not r.ok:
                raise MachineryError("model-level failure in %s/%s (rc=%s, violated=%s)\n%s"
                                     % (module, cfg, r.returncode, r.violated, r.tail(80)))
            self.log("model %s %s: ok, %d generated / %d distinct states, depth %d, %.1fs"
                     % (module, cfg, r.generated, r.distinct, r.depth, r.wall_s))
        if coverage and not expect_violation:
            never = sorted(k for k, v in r.coverage.items() if v[1] == 0)
            missing = [a for a in require_actions if a not in r.coverage or r.coverage[a][1] == 0]
            if missing:
                raise MachineryError("vacuity: action(s) %s never taken in %s/%s (coverage %s)" % (missing, module, cfg, r.coverage))
            self.log("coverage %s %s: %d actions, never taken: %s" % (module, cfg, len(r.coverage), never or "none"))
        if count:
            self.states += r.distinct
            self.transitions += r.generated
        return r

    def apalache(self, module, obligations):
        """Discharge proof obligations with Apalache (symbolic; inductive-invariant style).  `obligations` is a list of
        (init, inv, length, next, expect) with expect in {"NoError", "Error"}; an "Error" expectation is a negative
        control (a deliberately wrong action must be refuted).  Any other outcome is a machinery failure: the
        reference design itself, not the code, would be wrong."""
        from concurrent.futures import ThreadPoolExecutor
        def one(ob):
            init, inv, length, nxt, expect = ob
            oc, wall, tail = _tlc.run_apalache(module, init, inv, length, nxt, workdir=self.work)
            return ob, oc, wall, tail
        with ThreadPoolExecutor(max_workers=3) as ex:
            results = list(ex.map(one, obligations))
        rows = []
        for (init, inv, length, nxt, expect), oc, wall, tail in results:
            rows.append({"module": module, "init": init, "inv": inv, "length": length, "next": nxt, "expected": expect,
                         "outcome": oc, "wall_s": round(wall, 1)})
            if oc != expect:
                raise MachineryError("apalache %s: --init=%s --inv=%s --length=%d --next=%s gave %s, expected %s\n%s"
                                     % (module, init, inv, length, nxt, oc, expect, tail))
        self.extra.setdefault("apalache_obligations", []).extend(rows)
        self.log("apalache %s: %d obligation(s) as expected (%s)" % (module, len(rows),
                 ", ".join("%s/%s/%s:%s" % (r["init"], r["inv"], r["next"], r["outcome"]) for r in rows)))
        return rows

    # ------------------------------------------------------------------ driving
    def drive(self, cases, run_case, parallel=True, chunksize=8, procs=None):
        """Run run_case(case) -> [event, ...] for every case.  Returns list of
        (case, events).  run_case must catch library exceptions itself and log
        them as outcomes; an exception escaping it is a machinery failure."""
        cases = list(cases)
        if not cases:
            return []
        t0 = time.time()
        if parallel and len(cases) > 16:
            mp = multiprocessing.get_context("fork")
            pool = mp.Pool(procs or NCPU)
            try:
                res = pool.map(_CaseRunner(run_case), cases, chunksize)
            finally:
                pool.close()
                pool.join()
        else:
            r = _CaseRunner(run_case)
            res = [r(c) for c in cases]
        out = []
        for c, (evs, err) in zip(cases, res):
            if err:
                raise MachineryError("driver failed on case %s\n%s" % (dumps(c)[:600], err))
            out.append((c, evs))
        self.log("drove %d cases, %d events, %.1fs" % (len(out), sum(len(e) for _, e in out), time.time() - t0))
        return out

    # ------------------------------------------------------------------ judging
    def judge(self, trace_module, driven, cfg=None, batch=4000, heap="2500m", env=None, timeout=3000):
        """Hand the driven cases to TLC (spec/<trace_module>.tla).  `driven` is a
        list of (case, events).  Returns the failing verdicts (also kept in
        self.verdicts); every event of every case is judged (total verdicts)."""
        cfg = cfg or (trace_module + ".cfg")
        base_tid = len(self.cases)
        lines = []
        for k, (case, evs) in enumerate(driven):
            tid = base_tid + k
            self.cases.append(case)
            for s, e in enumerate(evs):
                e = dict(e)
                e["tid"] = tid
                e["step"] = s + 1
                if "action" not in e:
                    raise MachineryError("event without action: %r" % (e,))
                if _contains_null(e):
                    raise MachineryError("event contains null (not representable for TLC): %s" % dumps(e)[:400])
                lines.append(e)
                self.actions_seen[e["action"]] = self.actions_seen.get(e["action"], 0) + 1
        # split into batches at case boundaries
        batches, cur = [], []
        for e in lines:
            if len(cur) >= batch and e["step"] == 1:
                batches.append(cur)
                cur = []
            cur.append(e)
        if cur:
            batches.append(cur)
        jobs = []
        for bi, b in enumerate(batches):
            tf = os.path.join(self.work, "trace_%s_%d_%d.ndjson" % (trace_module, len(self.judge_runs), bi))
            of = tf[:-7] + ".verdict.json"
            with open(tf, "w") as f:
                for e in b:
                    f.write(dumps(e))
                    f.write("\n")
            jobs.append((trace_module, cfg, self.work, tf, of, heap, env, timeout, len(b)))
        t0 = time.time()
        if len(jobs) > 1:
            mp = multiprocessing.get_context("fork")
            pool = mp.Pool(min(len(jobs), max(1, NCPU // 2)))
            try:
                results = pool.map(_judge_job, jobs)
            finally:
                pool.close()
                pool.join()
        else:
            results = [_judge_job(j) for j in jobs]
        new = []
        for (job, b), (info, verdicts, err) in zip(zip(jobs, batches), results):
            self.judge_runs.append(info)
            if err:
                raise MachineryError("trace judge %s failed: %s" % (trace_module, err))
            for v in verdicts:
                ev = b[v["i"] - 1]
                v = dict(v)
                v["event"] = ev
                v["tid"] = ev["tid"]
                v["step"] = ev["step"]
                v["action"] = ev["action"]
                v["trace_module"] = trace_module
                new.append(v)
        self.judged_events += len(lines)
        self.events.extend(lines)
        self.verdicts.extend(new)
        self.log("TLC judged %d events of %d traces with %s in %d run(s), %.1fs: %d failing clause(s)"
                 % (len(lines), len(driven), trace_module, len(jobs), time.time() - t0, len(new)))
        return new

    # ------------------------------------------------------------------ reporting
    def add_nontrivial(self, key):
        self.nontrivial.add(key if isinstance(key, str) else dumps(key))

    def add_sample(self, s, limit=6):
        if len(self.samples) < limit:
            self.samples.append(s)

    def finish(self, level="model_checking"):
        findings = load_findings()
        open_f = [f for f in findings if f.get("property") == self.prop and f.get("status") == "open"]
        known_hit = {}
        unlisted = []
        for v in self.verdicts:
            hit = None
            for f in open_f:
                m = f.get("match", {})
                if all(str(v.get(k)) == str(m[k]) for k in m):
                    hit = f
                    break
            if hit is not None:
                known_hit.setdefault(hit["id"], [hit, 0])[1] += 1
            else:
                unlisted.append(v)
        for fid, (f, n) in sorted(known_hit.items()):
            print("KNOWN-FINDING: property=%s %s [%s; %d event(s) in this run]" % (self.prop, f.get("what", fid), fid, n))
        # group unlisted by (action, clause, class); one replay per group and tid (max 3 per group)
        groups = {}
        for v in unlisted:
            groups.setdefault((v.get("trace_module"), v["action"], v["clause"], v.get("class", "")), []).append(v)
        replays = []
        per_clause = {}
        for gk, vs in sorted(groups.items(), key=lambda kv: str(kv[0])):
            seen_tid = []
            ck = (gk[2], gk[3])
            for v in vs:
                if v["tid"] in seen_tid:
                    continue
                # at most 2 replays per (action, clause, class), 4 per (clause, class), 24 in total;
                # every group is still listed in the summary below
                if len(seen_tid) >= 2 or per_clause.get(ck, 0) >= 4 or len(replays) >= 24:
                    break
                seen_tid.append(v["tid"])
                per_clause[ck] = per_clause.get(ck, 0) + 1
                path = self._write_replay(v, len(vs))
                replays.append(path)
                print("VIOLATION property=%s replay=%s" % (self.prop, path))
                print("  clause=%s class=%s action=%s (%d event(s) in this group)%s"
                      % (v["clause"], v.get("class", ""), v["action"], len(vs),
                         (" note=" + str(v.get("note"))) if v.get("note") else ""))
        if unlisted:
            print("VIOLATION-SUMMARY property=%s: %d failing clause evaluation(s) in %d group(s): %s"
                  % (self.prop, len(unlisted), len(groups),
                     "; ".join("%s[%s]@%s x%d" % (k[2], k[3], k[1], len(v)) for k, v in sorted(groups.items(), key=lambda kv: -len(kv[1]))[:12])))
        self._write_evidence(level, len(unlisted), known_hit)
        shutil.rmtree(self.work, ignore_errors=True)
        if unlisted:
            return 1
        print("OK property=%s tier=%s: %d model states, %d events of %d real executions judged by TLC, %d known finding(s)"
              % (self.prop, self.tier, self.states, self.judged_events, len(self.cases), len(known_hit)))
        return 0

    def _write_replay(self, v, group_size):
        tid = v["tid"]
        evs = [e for e in self.events if e["tid"] == tid]
        rec = {"property": self.prop, "tier": self.tier, "seed": self.seed,
               "trace_module": v.get("trace_module"),
               "verdict": {k: v[k] for k in v if k not in ("event",)},
               "group_size": group_size,
               "case": self.cases[tid], "events": evs}
        s = dumps(rec)
        h = hashlib.sha1(dumps([self.cases[tid], v["clause"], v.get("class", ""), v["action"]]).encode()).hexdigest()[:12]
        d = os.path.join(VERIF, "replays", self.prop)
        os.makedirs(d, exist_ok=True)
        path = os.path.join(d, h + ".json")
        with open(path, "w") as f:
            f.write(s)
        return path

    def _write_evidence(self, level, nviol, known_hit):
        cov = {
            "states": self.states,
            "transitions": self.transitions,
            "traces_validated_against_impl": len(self.cases),
            "samples": self.samples or [{"note": "no sample recorded"}],
            "evaluations": self.judged_events,
            "distinct_nontrivial": len(self.nontrivial),
            "rule": self.rule,
            "exhaustive": bool(self.exhaustive),
            "judged_events": self.judged_events,
            "events_per_action": self.actions_seen,
            "model_runs": self.model_runs,
            "judge_runs": self.judge_runs,
            "expected_model_violations_found": self.expected_model_violations,
            "known_findings_hit": sorted(known_hit),
            "drift": self.drift,
            "checker_cmd": "./check %s --tier %s" % (self.prop, self.tier),
            "trusted_base": ["TLC 1.8 (tla2tools.jar)", "harness/vlib projections (proj.py) and builders (build.py)",
                             "the property driver harness/props/%s.py (object construction, event logging)" % self.prop],
            "repo": repo_root(),
        }
        cov.update(self.extra)
        ev = {"property_id": self.prop, "tier": self.tier, "seed": int(self.seed), "level": level,
              "coverage": cov, "assumptions": self.assumptions + self.notes,
              "wall_s": round(time.time() - self.t0, 2), "violations": int(nviol)}
        # replays and runs against scratch copies (mutants) never overwrite the registered evidence
        scratch = self.replay or os.path.abspath(repo_root()) != "/repo"
        d = os.path.join(VERIF, ".work", "evidence_scratch") if scratch else os.path.join(VERIF, "evidence")
        os.makedirs(d, exist_ok=True)
        with open(os.path.join(d, self.prop + ".json"), "w") as f:
            json.dump(ev, f, indent=1, sort_keys=True, default=_jsonable)
            f.write("\n")


class _CaseRunner(object):
    def __init__(self, fn):
        self.fn = fn

    def __call__(self, case):
        try:
            return (self.fn(case), None)
        except BaseException:
            return (None, traceback.format_exc())


def _judge_job(job):
    trace_module, cfg, work, tf, of, heap, env, timeout, n = job
    e = {"TRACE_FILE": tf, "OUT_FILE": of}
    if env:
        e.update(env)
    r = _tlc.run_tlc(trace_module, cfg, work, workers=1, env=e, heap=heap, timeout=timeout)
    info = r.as_dict()
    info["events"] = n
    if not r.ok:
        return (info, [], "TLC rc=%s on %s\n%s" % (r.returncode, tf, r.tail(50)))
    try:
        with open(of) as f:
            out = json.load(f)
    except Exception as ex:
        return (info, [], "no verdict file %s (%s)\n%s" % (of, ex, r.tail(30)))
    if out.get("n") != n:
        return (info, [], "judge consumed %s of %d events" % (out.get("n"), n))
    bad = out.get("bad", [])
    return (info, bad, None)


def load_findings():
    """known_findings/<Cxx>.json (committed by hand, never written at run time)"""
    d = os.path.join(VERIF, "known_findings")
    out = []
    if os.path.isdir(d):
        for fn in sorted(os.listdir(d)):
            if fn.endswith(".json"):
                with open(os.path.join(d, fn)) as f:
                    out.extend(json.load(f).get("findings", []))
    return out


def main(prop_module, argv=None):
    """Entry used by ./check."""
    import argparse
    ap = argparse.ArgumentParser()
    ap.add_argument("prop")
    ap.add_argument("--tier", default=os.environ.get("VERIF_TIER", "quick"), choices=["quick", "thorough"])
    ap.add_argument("--replay", default=None)
    ap.add_argument("--seed", type=int, default=int(os.environ.get("VERIF_SEED", "0") or 0))
    a = ap.parse_args(argv)
    ctx = Ctx(a.prop, a.tier, a.seed, replay=a.replay)
    try:
        bind_repo()
        if a.replay:
            with open(a.replay) as f:
                rec = json.load(f)
            prop_module.replay(ctx, rec)
        else:
            prop_module.run(ctx)
        return ctx.finish()
    except MachineryError as ex:
        print("MACHINERY-FAILURE property=%s: %s" % (a.prop, ex))
        return 2
    except Exception:
        print("MACHINERY-FAILURE property=%s: unexpected exception in harness\n%s" % (a.prop, traceback.format_exc()))
        return 2
