"""Abstract values -> real dendropy objects, without readers (DESIGN 2.1).

Nested form used by the drivers: a node is [label_or_None, taxon_index_or_None, length_or_None, [children]]
where taxon_index refers to a list of Taxon objects.
"""
import random


def make_namespace(dendropy, n, holes=(), order=None, labels=None):
    """Namespace with n surviving taxa; `holes` = accession indices that were
    added and removed again (so bits are not dense); optional reordering."""
    ns = dendropy.TaxonNamespace()
    total = n + len(holes)
    made = []
    # when the newest accession is a member, it is created AFTER the holes were removed: same accession indices on
    # a correct namespace, but a namespace that hands out indices again after a removal shows it (seeded C14-v2)
    defer = bool(holes) and total > 0 and (total - 1) not in holes
    for i in range(total - 1 if defer else total):
        made.append(ns.new_taxon("h%d" % i if i in holes else None))
    for i in sorted(holes):
        ns.remove_taxon(made[i])
    if defer:
        made.append(ns.new_taxon(None))
    taxa = [t for i, t in enumerate(made) if i not in holes]
    for k, t in enumerate(taxa):
        t.label = labels[k] if labels else "T%d" % (k + 1)
    if order == "reverse":
        ns.reverse()
    elif order == "sort":
        ns.sort()
    return ns, taxa


def build_node(dendropy, nested, taxa):
    lab, tx, ln, kids = nested
    nd = dendropy.Node(label=lab, edge_length=ln)
    if tx is not None:
        nd.taxon = taxa[tx]
    for k in kids:
        nd.add_child(build_node(dendropy, k, taxa))
    return nd


def build_tree(dendropy, nested, ns, taxa, rooted=None):
    seed = build_node(dendropy, nested, taxa)
    t = dendropy.Tree(seed_node=seed, taxon_namespace=ns)
    t.is_rooted = rooted
    return t


def nested_from_parents(par, leaf_taxa, lens=None, labels=None):
    """par: 0-based preorder parent array with par[0] = -1 (or TLC's 1-based with 0); returns nested form.
    leaf_taxa: taxon indices for the leaves, left to right."""
    n = len(par)
    if par and par[0] == 0 and all(p >= 1 for p in par[1:]):    # 1-based (TLC)
        par = [p - 1 for p in par]
    kids = [[] for _ in range(n)]
    for i in range(1, n):
        kids[par[i]].append(i)
    it = iter(leaf_taxa)

    def mk(x):
        ch = [mk(c) for c in kids[x]]
        tx = None if ch else next(it)
        return [labels[x] if labels else None, tx, lens[x] if lens else None, ch]
    return mk(0)


def all_parent_arrays(n):
    """all ordered trees with n nodes as 0-based preorder parent arrays (par[0] = -1)"""
    out = []

    def rec(par):
        i = len(par)
        if i == n:
            out.append(list(par))
            return
        x = i - 1
        anc = []
        while x >= 0:
            anc.append(x)
            x = par[x]
        for a in anc:
            par.append(a)
            rec(par)
            par.pop()
    rec([-1])
    return out


def num_leaves(par):
    has = set(p for p in par if p >= 0)
    return sum(1 for i in range(len(par)) if i not in has)


def random_parents(rng, nleaves, p_poly=0.25, p_unif=0.1):
    """random ordered tree shape with the given number of leaves (polytomies and unifurcations allowed)"""
    # grow by splitting leaves
    nested = [None, None, None, []]
    leaves = [nested]
    while len(leaves) < nleaves:
        lf = leaves.pop(rng.randrange(len(leaves)))
        k = 2
        while rng.random() < p_poly and len(leaves) + k < nleaves:
            k += 1
        lf[3] = [[None, None, None, []] for _ in range(k)]
        leaves.extend(lf[3])
    def unif(nd):
        for i, c in enumerate(nd[3]):
            unif(c)
            if rng.random() < p_unif:
                nd[3][i] = [None, None, None, [c]]
    unif(nested)
    rng.shuffle(leaves)
    return nested


def assign(nested, rng, taxa_idx, lengths=(None, 0, 1, 2, 3), label_internal=False, len_none_all=False):
    """fill taxa on leaves (in the given order), lengths and labels"""
    it = iter(taxa_idx)
    cnt = [0]

    def rec(nd, is_root):
        cnt[0] += 1
        if not nd[3]:
            nd[1] = next(it)
        elif label_internal:
            nd[0] = "n%d" % cnt[0]
        nd[2] = None if len_none_all else rng.choice(lengths)
        for c in nd[3]:
            rec(c, False)
    rec(nested, True)
    return nested
