"""C12 helper: object-graph projection (identity view) and value views.

Everything here is a *projection*: it reads raw attributes (``__dict__``,
container items) of real dendropy objects and writes them down.  It never
decides whether a copy is right - spec/Trace_CopySem.tla (TLC) does.

Identity view ("heap"):  every reachable *mutable* Python object is a heap
object with a small integer id (stable for the life of a World), a kind, its
outgoing references and a digest (crc32) of its own direct state (atom fields
by value, references by id).  Immutable atoms - None, bool, int, float, str,
bytes, tuples/frozensets of atoms, classes, functions, modules, and the
state-alphabet singletons of charstatemodel (whose __deepcopy__ is documented
to return self) - are *values*, not heap objects.  Class-level and module-level
objects are never reached because only instance state is walked.

Value view:  identity-free rendering of an object (structure through
proj.tree_graph, labels, lengths, rooting, annotations by value, comments,
sequences, and a canonical serialisation of everything else with object
identities replaced by discovery indices).
"""
import types
import zlib

from . import proj

OBJ_CAP = 6000
SPECIAL_ATTRS = ("extraction_source",)     # edges logged with their label; the spec decides what they mean

_ATOMS = (type(None), bool, int, float, complex, str, bytes)
_CODEISH = (type, types.FunctionType, types.BuiltinFunctionType, types.ModuleType, types.MethodType,
            staticmethod, classmethod, property)


def is_atom(o, _depth=0):
    if isinstance(o, _ATOMS):
        return True
    if isinstance(o, (tuple, frozenset)):
        return _depth < 6 and all(is_atom(x, _depth + 1) for x in o)
    if isinstance(o, _CODEISH):
        return True
    if type(o).__module__ == "dendropy.datamodel.charstatemodel":
        return True
    return False


def atom_repr(o):
    if isinstance(o, (tuple, frozenset)):
        inner = [atom_repr(x) for x in o]
        if isinstance(o, frozenset):
            inner.sort()
        return "(" + ",".join(inner) + ")"
    if isinstance(o, type):
        return "<class %s>" % o.__name__
    if isinstance(o, _CODEISH):
        return "<code %s>" % getattr(o, "__name__", type(o).__name__)
    if type(o).__module__ == "dendropy.datamodel.charstatemodel":
        sym = getattr(o, "_symbol", None)
        return "<state %s %s>" % (type(o).__name__, sym if sym is not None else getattr(o, "label", ""))
    return repr(o)


def kind_of(o):
    """kind names of spec/CopySem.tla"""
    n = type(o).__name__
    mod = type(o).__module__ or ""
    if mod.startswith("dendropy"):
        for cls in type(o).__mro__:
            cn = cls.__name__
            if cn in ("Tree", "Node", "Edge", "Bipartition", "Taxon", "AnnotationSet", "Annotation", "TreeList"):
                return cn
            if cn == "TaxonNamespace":
                return "Namespace"
            if cn == "CharacterDataSequence":
                return "Sequence"
            if cn == "CharacterMatrix":
                return "Matrix"
        if isinstance(o, dict):
            return "dict"
        if isinstance(o, list):
            return "list"
        return "Other"
    if isinstance(o, dict):
        return "dict"
    if isinstance(o, list):
        return "list"
    if isinstance(o, (set, frozenset)):
        return "set"
    if isinstance(o, tuple):
        return "tuple"
    return "Other"


def fields_of(o):
    """[(label, value)] - the direct state of a heap object, in a canonical order"""
    out = []
    if isinstance(o, dict):
        for i, (k, v) in enumerate(list(o.items())):
            out.append(("k%d" % i, k))
            out.append(("v%d" % i, v))
    elif isinstance(o, (list, tuple)):
        for i, v in enumerate(list(o)):
            out.append(("i%d" % i, v))
    elif isinstance(o, (set, frozenset)):
        for v in list(o):
            out.append(("m", v))
    d = getattr(o, "__dict__", None)
    if isinstance(d, dict):
        for k in sorted(d):
            out.append(("." + str(k), d[k]))
    for cls in type(o).__mro__:
        for s in getattr(cls, "__slots__", ()) or ():
            if isinstance(s, str) and s not in ("__dict__", "__weakref__") and hasattr(o, s):
                out.append(("." + s, getattr(o, s)))
    return out


class World(object):
    """stable small ids for the heap objects seen during one case"""

    def __init__(self):
        self.ids = {}
        self.keep = []

    def oid(self, o):
        k = self.ids.get(id(o))
        if k is None:
            self.keep.append(o)
            k = len(self.keep)
            self.ids[id(o)] = k
        return k

    def graph(self, roots):
        """heap reachable from the given root objects, dense by id (1..number of objects ever seen in this
        World; objects not reachable now have kind ""):  kind, succ, dig, and lsucc = [{f, l, t}] for the
        references held in SPECIAL_ATTRS attributes (the spec decides what those mean)."""
        seen = {}
        order = []
        stack = [r for r in roots if r is not None and not is_atom(r)]
        while stack:
            o = stack.pop()
            if id(o) in seen:
                continue
            if len(order) >= OBJ_CAP:
                raise ValueError("object graph larger than OBJ_CAP")
            fl = [(lbl, v, is_atom(v)) for lbl, v in fields_of(o)]
            seen[id(o)] = o
            order.append((o, fl))
            for lbl, v, atom in fl:
                if not atom:
                    stack.append(v)
        rows = {}
        lsucc = []
        for o, fl in order:
            me = self.oid(o)
            succ = []
            k = kind_of(o)
            parts = [k]
            for lbl, v, atom in fl:
                if atom:
                    parts.append(lbl + "=" + atom_repr(v))
                else:
                    t = self.oid(v)
                    if lbl[1:] in SPECIAL_ATTRS:
                        lsucc.append({"f": me, "l": lbl[1:], "t": t})
                        parts.append(lbl + "=@" + str(t))
                        continue
                    succ.append(t)
                    parts.append(lbl + "=#" + str(t))
            if isinstance(o, (set, frozenset)):
                parts = [parts[0]] + sorted(parts[1:])
            rows[me] = (k, sorted(set(succ)), zlib.crc32("\x1f".join(parts).encode("utf8", "replace")) & 0xFFFFFF)
        n = len(self.keep)
        dead = ("", [], 0)
        return {"kind": [rows.get(i, dead)[0] for i in range(1, n + 1)],
                "succ": [rows.get(i, dead)[1] for i in range(1, n + 1)],
                "dig": [rows.get(i, dead)[2] for i in range(1, n + 1)],
                "lsucc": lsucc}


# --------------------------------------------------------------------------- value views

def _s(v):
    """atom -> string (views only hold strings / ints / lists)"""
    if v is None:
        return ""
    if isinstance(v, str):
        return "s:" + v
    return atom_repr(v)


def _crc(s):
    return zlib.crc32(s.encode("utf8", "replace")) & 0x7FFFFFFF


class NsCodes(object):
    """taxon -> code: accession index + 1 in the given namespace (read from the raw maps); 0 = no taxon,
    1000 = a taxon object that is not a member of that namespace"""

    def __init__(self, ns):
        self.ns = ns
        self.idx = {}
        m = getattr(ns, "_taxon_accession_index_map", None) if ns is not None else None
        if isinstance(m, dict):
            for t, i in list(m.items()):
                self.idx[id(t)] = i

    def code(self, t):
        if t is None:
            return 0
        i = self.idx.get(id(t))
        if isinstance(i, int):
            return i + 1
        return 1000

    def label(self, t):
        return "" if t is None else _s(getattr(t, "_label", None))


def ann_entry(a, owner, depth=0):
    """one Annotation by value.  Bound-attribute annotations are read through the annotation
    (getattr(*a._value), what a.value returns); those bound to the object that owns the annotation set
    (self = True) are also read directly from that object (own)."""
    d = getattr(a, "__dict__", {})
    raw = d.get("_value")
    bound = bool(d.get("is_attribute"))
    attr = ""
    via_ann = ""
    via_owner = ""
    if bound:
        try:
            attr = str(raw[1])
            via_ann = _s_any(getattr(raw[0], raw[1]))
        except Exception as ex:
            via_ann = "!" + type(ex).__name__
        try:
            via_owner = _s_any(getattr(owner, attr))
        except Exception as ex:
            via_owner = "!" + type(ex).__name__
    else:
        via_ann = _s_any(raw)
    sub = []
    s2 = d.get("_annotations")
    if s2 is not None and depth < 2:
        sub = [ann_entry(x, a, depth + 1) for x in list(getattr(s2, "_item_list", []))]
        for x in sub:
            x.pop("_own", None)
    # everything else the annotation holds - every constructor option (name prefix, namespace, datatype hint,
    # annotate_as_reference, is_hidden, real_value_format_specifier) and any attribute set on it later -
    # by value: the whole __dict__ minus the fields rendered above and the owner links
    rest = []
    for k in sorted(d):
        if k in ("name", "_value", "is_attribute", "_annotations"):
            continue
        rest.append(str(k) + "=" + _s_any(d[k]))
    meta = _crc("|".join(rest))
    return {"name": _s(d.get("name")), "bound": bound, "attr": attr, "val": via_ann, "meta": meta, "sub": sub,
            "_own": via_owner}


def _s_any(v):
    if is_atom(v):
        return _s(v)
    if isinstance(v, (list, tuple)):
        return "[" + ",".join(_s_any(x) for x in v) + "]"
    if isinstance(v, dict):
        return "{" + ",".join(_s_any(k) + ":" + _s_any(x) for k, x in v.items()) + "}"
    return "<" + kind_of(v) + ">"


def annotable_view(o):
    """(ann, bnd) of one Annotable, read from __dict__ only (the ``annotations`` property would create an
    empty set as a side effect).  ann: comments and annotations by value.  bnd: is the set's target its owner
    (1 yes, 2 no, 0 no set), and per bound annotation whether it is bound to the owner (1) or to another object (2),
    its value read through the annotation (v) and - when bound to the owner - read from the owner itself (o)."""
    d = getattr(o, "__dict__", {})
    com = d.get("comments")
    comments = [_s_any(c) for c in list(com)] if isinstance(com, list) else []
    aset = d.get("_annotations")
    items = list(getattr(aset, "_item_list", [])) if aset is not None else []
    anns = [ann_entry(a, o) for a in items]
    tgt = 0
    if aset is not None:
        tgt = 1 if getattr(aset, "target", None) is o else 2
    b, vals, owns = [], [], []
    for a, e in zip(items, anns):
        ad = getattr(a, "__dict__", {})
        own = e.pop("_own")
        if ad.get("is_attribute"):
            raw = ad.get("_value")
            mine = isinstance(raw, tuple) and len(raw) == 2 and raw[0] is o
            b.append(1 if mine else 2)
            vals.append(e["val"])                 # read through the annotation: getattr(*a._value)
            owns.append(own if mine else "")      # read directly from the annotated object
    return {"c": comments, "a": anns}, {"t": tgt, "b": b, "v": vals, "o": owns}


_NOANN = ({"c": [], "a": []}, {"t": 0, "b": [], "v": [], "o": []})


def canon(root, stop_ns=True):
    """identity-free canonical serialisation of everything reachable from root: one crc per object in
    discovery order (fields in canonical order), references rendered as discovery indices.  With stop_ns,
    Taxon and namespace objects are rendered as 'T' / 'NS' and not entered (taxon associations are in the
    tx / txl views, the namespace has its own view)."""
    idx = {}
    order = []

    def ref(v):
        k = kind_of(v)
        if stop_ns and k == "Taxon":
            return "T"
        if stop_ns and k == "Namespace":
            return "NS"
        j = idx.get(id(v))
        if j is None:
            if len(order) >= OBJ_CAP:
                return "#cap"
            order.append(v)
            j = len(order)
            idx[id(v)] = j
        return "#%d" % j

    ref(root)
    out_k, out_c = [], []
    i = 0
    while i < len(order):
        o = order[i]
        i += 1
        parts = []
        unordered = isinstance(o, (set, frozenset))
        for lbl, v in fields_of(o):
            if lbl[1:] in SPECIAL_ATTRS:
                parts.append(lbl + "=@")
            elif is_atom(v):
                parts.append(lbl + "=" + atom_repr(v))
            else:
                # members of sets are discovered through their ordered twin (OrderedSet._item_list) first
                parts.append(lbl + "=" + ref(v))
        if unordered:
            parts.sort()
        out_k.append(kind_of(o))
        out_c.append(_crc("\x1f".join([kind_of(o)] + parts)))
    return {"k": out_k, "c": out_c}


class _ProjCodes(object):
    def __init__(self, codes):
        self.c = codes

    def code(self, t):
        return self.c.code(t)


def tree_parts(tree, codes):
    """core / tx / txl / enc / ann / bnd of one tree"""
    ids = {}
    g = proj.tree_graph(tree, codes=_ProjCodes(codes), node_ids=ids)
    order = ids.pop("__order__", [])
    tx = g.pop("tx")
    txl = [codes.label(getattr(nd, "taxon", None)) for nd in order]
    g["elab"] = [_s(getattr(getattr(nd, "_edge", None), "_label", None)) for nd in order]
    g["tlabel"] = _s(getattr(tree, "_label", None))
    g["weight"] = _s(getattr(tree, "weight", None))
    g["ltype"] = _s(getattr(tree, "length_type", None))
    ann, bnd = [], []
    for o in [tree] + [x for nd in order for x in (nd, getattr(nd, "_edge", None))]:
        a, b = annotable_view(o) if o is not None else _NOANN
        ann.append(a)
        bnd.append(b)
    bip = []
    for nd in order:
        b = getattr(getattr(nd, "_edge", None), "_bipartition", None)
        bip.append(-1 if b is None else _crc(atom_repr((getattr(b, "_split_bitmask", None), getattr(b, "_leafset_bitmask", None),
                                                        getattr(b, "_tree_leafset_bitmask", None), getattr(b, "_is_rooted", None)))))
    enc = getattr(tree, "bipartition_encoding", None)
    return {"core": g, "tx": tx, "txl": txl, "enc": {"n": -1 if enc is None else len(enc), "b": bip}, "ann": ann, "bnd": bnd}


def ns_view(ns):
    if ns is None:
        return {"labels": [], "idx": [], "label": "", "ann": [], "bnd": [], "full": {"k": [], "c": []}, "flags": ""}
    codes = NsCodes(ns)
    taxa = list(getattr(ns, "_taxa", []))
    ab = [annotable_view(ns)] + [annotable_view(t) for t in taxa]
    return {"labels": [codes.label(t) for t in taxa],
            "idx": [codes.code(t) for t in taxa],
            "label": _s(getattr(ns, "_label", None)),
            "flags": _s(getattr(ns, "is_mutable", None)) + "|" + _s(getattr(ns, "is_case_sensitive", None)),
            "ann": [x[0] for x in ab], "bnd": [x[1] for x in ab],
            "full": canon(ns, stop_ns=False)}


def view_of(o, kinds=True):
    """the value view of spec/CopySem.tla: core, tx, txl, enc, ann, bnd, full, ns.
    kinds=False drops the per-object kind lists of the canonical serialisations (only used to name the
    first difference after a copy)."""
    v = _view_of(o)
    if not kinds:
        v["full"] = {"c": v["full"]["c"]}
        v["ns"] = dict(v["ns"], full={"c": v["ns"]["full"]["c"]})
    return v


def _view_of(o):
    k = kind_of(o)
    ns = getattr(o, "_taxon_namespace", None)
    codes = NsCodes(ns)
    if k == "Tree":
        v = tree_parts(o, codes)
        v["full"] = canon(o)
    elif k == "TreeList":
        a0, b0 = annotable_view(o)
        v = {"core": {"trees": [], "tlabel": _s(getattr(o, "_label", None))}, "tx": [], "txl": [],
             "enc": {"n": 0, "b": []}, "ann": [a0], "bnd": [b0], "full": canon(o)}
        for t in list(getattr(o, "_trees", [])):
            tp = tree_parts(t, codes)
            v["core"]["trees"].append(tp["core"])
            v["tx"].append(tp["tx"])
            v["txl"].append(tp["txl"])
            v["enc"]["b"].append(tp["enc"]["b"])
            v["enc"]["n"] += max(tp["enc"]["n"], 0)
            v["ann"].extend(tp["ann"])
            v["bnd"].extend(tp["bnd"])
    elif k == "Matrix":
        a0, b0 = annotable_view(o)
        v = {"core": {"rows": [], "tlabel": _s(getattr(o, "_label", None))}, "tx": [], "txl": [],
             "enc": {"n": 0, "b": []}, "ann": [a0], "bnd": [b0], "full": canon(o)}
        for t, seq in list(getattr(o, "_taxon_sequence_map", {}).items()):
            v["core"]["rows"].append([_s_any(x) for x in list(getattr(seq, "_character_values", []))])
            v["tx"].append(codes.code(t))
            v["txl"].append(codes.label(t))
            a, b = annotable_view(seq)
            v["ann"].append(a)
            v["bnd"].append(b)
        subsets = getattr(o, "character_subsets", None)
        if subsets is not None:
            # auxiliary structures of a matrix (its character subsets) take the place of the bipartition encoding
            for key in list(subsets.keys()):
                cs = subsets[key]
                v["enc"]["b"].append(_crc(_s(key) + ":" + atom_repr(tuple(sorted(getattr(cs, "character_indices", ()))))))
            v["enc"]["n"] = len(v["enc"]["b"])
    elif k == "Namespace":
        a0, b0 = annotable_view(o)
        return {"core": {"tlabel": _s(getattr(o, "_label", None))}, "tx": [], "txl": [], "enc": {"n": 0, "b": []},
                "ann": [a0], "bnd": [b0], "full": {"k": [], "c": []}, "ns": ns_view(o)}
    else:
        raise ValueError("no view for %r" % (o,))
    v["ns"] = ns_view(ns)
    return v
