"""C11 helper: a universe of real dendropy objects <-> the abstract universe of spec/Containers.tla.

No oracle here: `World.build` constructs real objects from an abstract universe (the model's
initial state), `World.project` reads object identities and references back (id() -> small
integers in order of first sight), `World.call` performs one public API call named by a model
action and logs (action, args, universe before, universe after, raised).
"""
import collections

from . import build as vbuild
from . import budget

STEP_LIMIT = 400000

# positional parameters of the model actions (MC_Containers) -> field names of the event's args
PARAMS = {
    "TLAppend": ("l", "t", "strat"), "TLInsert": ("l", "i", "t", "strat"), "TLExtendList": ("l", "l2"),
    "TLExtendTrees": ("l", "ts"), "TLAddList": ("l", "l2"), "TLAddTrees": ("l", "ts"), "TLSetItem": ("l", "i", "t"),
    "TLSetSliceList": ("l", "sl", "l2"), "TLSetSliceTrees": ("l", "sl", "ts"), "TLGetSlice": ("l", "sl"),
    "TLRemoveAt": ("l", "i", "how"), "TLClear": ("l",), "TLNewTree": ("l", "nsarg"), "TLRead": ("l", "srcs"),
    "TLCtorList": ("l", "nsarg"), "TLCtorTrees": ("ts", "nsarg"), "TLMigrate": ("l", "n", "unify"),
    "TLReconstruct": ("l", "unify"), "TLClearReconstruct": ("l", "unify"), "TLUpdate": ("l",), "TreeMigrate": ("t", "n", "unify"), "TreeClone": ("t", "nsarg"),
    "TAAdd": ("a", "t"), "TARead": ("a", "srcs"), "CMNewSeq": ("m", "t"), "TLAppendMemo": ("l", "t", "how", "k"), "TLMigrateMemo": ("l", "n", "k"), "TreeMigrateMemo": ("t", "n", "k"),
    "CMMigrateMemo": ("m", "n", "k"), "TLNewTreeSeed": ("l", "refs", "labs"), "TreeFromSeed": ("nsarg", "refs", "labs"),
    "CMSetItem": ("m", "t"), "CMGetTaxon": ("m", "t"), "CMGetLabel": ("m", "lab"), "CMGetIndex": ("m", "i"),
    "CMMigrate": ("m", "n", "unify"), "CMReconstruct": ("m", "unify"), "CMClearReconstruct": ("m", "unify"), "CMUpdate": ("m",), "CMFromDict": ("keys", "nsarg"),
    "CMClone": ("m", "nsarg"), "DSRead": ("src", "nsarg"), "DSReadBlocks": ("blocks", "nsarg"), "DSAddList": ("l",), "DSAddMat": ("m",), "DSNewList": ("nsarg",),
    "DSNewMat": ("nsarg",), "DSAttach": ("n",), "DSDetach": (), "DSUnify": ("nsarg",),
}


def args_of(name, pos):
    """('TLSetSliceList', [1, [0, 1], 2]) -> {'l': 1, 'lo': 0, 'hi': 1, 'l2': 2}"""
    names = PARAMS[name]
    if len(names) != len(pos):
        raise ValueError("action %s: %d parameters expected, got %r" % (name, len(names), pos))
    out = {}
    for k, v in zip(names, pos):
        if k == "sl":
            out["lo"], out["hi"] = v[0], v[1]
        else:
            out[k] = v
    if name == "DSDetach":
        out["none"] = 0
    return out


def quote(label):
    return "'%s'" % label if any(c in label for c in " ()[]{}/\\,;:=*'\"`+-<>") else label


def newick_of(labels):
    return "(" + ",".join(quote(x) for x in labels) + ");"


def nexus_of(src):
    out = ["#NEXUS", "BEGIN TAXA;", "  DIMENSIONS NTAX=%d;" % len(src["taxa"]),
           "  TAXLABELS %s;" % " ".join(quote(x) for x in src["taxa"]), "END;"]
    if src["rows"]:
        out += ["BEGIN CHARACTERS;", "  DIMENSIONS NCHAR=2;", "  FORMAT DATATYPE=STANDARD SYMBOLS=\"01\";", "  MATRIX"]
        out += ["    %s 01" % quote(x) for x in src["rows"]]
        out += ["  ;", "END;"]
    if src["trees"]:
        out += ["BEGIN TREES;"]
        out += ["  TREE t%d = [&R] %s" % (i + 1, newick_of(t)) for i, t in enumerate(src["trees"])]
        out += ["END;"]
    return "\n".join(out) + "\n"


def nexml_of(blocks):
    """a NeXML document with one <otus> and one <trees> element per block (star trees, as newick_of)"""
    out = ['<?xml version="1.0" encoding="ISO-8859-1"?>',
           '<nex:nexml version="0.9" xmlns="http://www.nexml.org/2009" xmlns:nex="http://www.nexml.org/2009" '
           'xmlns:xsi="http://www.w3.org/2001/XMLSchema-instance" xmlns:xml="http://www.w3.org/XML/1998/namespace">']
    esc = lambda x: x.replace("&", "&amp;").replace('"', "&quot;").replace("<", "&lt;")
    for b, blk in enumerate(blocks):
        out.append('<otus id="ns%d" label="block%d">' % (b, b))
        for i, lab in enumerate(blk["taxa"]):
            out.append('  <otu id="ns%d_t%d" label="%s"/>' % (b, i, esc(lab)))
        out.append('</otus>')
    for b, blk in enumerate(blocks):
        out.append('<trees id="trees%d" otus="ns%d">' % (b, b))
        for k, tr in enumerate(blk["trees"]):
            out.append('  <tree id="tree%d_%d" xsi:type="nex:FloatTree">' % (b, k))
            out.append('    <node id="n%d_%d_r" root="true"/>' % (b, k))
            for j, lab in enumerate(tr):
                out.append('    <node id="n%d_%d_%d" otu="ns%d_t%d"/>' % (b, k, j, b, blk["taxa"].index(lab)))
            for j, lab in enumerate(tr):
                out.append('    <edge id="e%d_%d_%d" source="n%d_%d_r" target="n%d_%d_%d"/>' % (b, k, j, b, k, b, k, j))
            out.append('  </tree>')
        out.append('</trees>')
    out.append('</nex:nexml>')
    return "\n".join(out) + "\n"


class Reg(object):
    """object identity -> small integer, in order of first sight (objects are kept alive)"""

    def __init__(self):
        self.objs = []
        self.ids = {}

    def id(self, o):
        if o is None:
            return 0
        k = self.ids.get(id(o))
        if k is None:
            self.objs.append(o)
            k = len(self.objs)
            self.ids[id(o)] = k
        return k

    def __getitem__(self, k):
        return self.objs[k - 1]

    def __len__(self):
        return len(self.objs)


def tree_shape(k):
    """nested form (vlib.build) whose taxon-bearing nodes in preorder are taxa 0..k-1: with three or more,
    the first taxon sits on the (internal) seed node; no unifurcations (TreeArray would suppress them)."""
    leaf = lambda i: [None, i, None, []]
    if k <= 2:
        return [None, None, None, [leaf(i) for i in range(k)] + ([] if k == 2 else [[None, None, None, []]] * (2 - k))]
    return [None, 0, None, [leaf(i) for i in range(1, k)]]


class World(object):
    def __init__(self, dendropy):
        self.d = dendropy
        self.tax, self.ns, self.trees, self.lists, self.mats, self.arrs = Reg(), Reg(), Reg(), Reg(), Reg(), Reg()
        self.ds = None
        self.memos = []         # caller-owned taxon_mapping_memo dictionaries
        self.labels = []

    # ------------------------------------------------------------------ abstract -> real
    def build(self, u):
        d = self.d
        for lab in u["labels"]:
            self.tax.id(d.Taxon(label=lab))
        for n in u["ns"]:
            ns = d.TaxonNamespace(is_case_sensitive=bool(n["cs"]))
            for t in n["mem"]:
                ns.add_taxon(self.tax[t])
            self.ns.id(ns)
        for t in u["trees"]:
            taxa = [self.tax[r] for r in t["refs"]]
            tree = vbuild.build_tree(d, tree_shape(len(taxa)), self.ns[t["ns"]], taxa, rooted=True)
            self.trees.id(tree)
        for l in u["lists"]:
            tl = d.TreeList(taxon_namespace=self.ns[l["ns"]])
            for t in l["trees"]:
                tl.append(self.trees[t])
            self.lists.id(tl)
        for m in u["mats"]:
            cm = d.StandardCharacterMatrix(taxon_namespace=self.ns[m["ns"]])
            for r in m["rows"]:
                cm.new_sequence(self.tax[r], ["0", "1"])
            self.mats.id(cm)
        for a in u["arrs"]:
            self.arrs.id(d.TreeArray(taxon_namespace=self.ns[a["ns"]], is_rooted_trees=True))
        for mm in u.get("memos", []):
            self.memos.append(dict((self.tax[o], self.tax[t]) for o, t in mm))
        self.ds = d.DataSet()
        if u["ds"]["att"]:
            self.ds.attach_taxon_namespace(self.ns[u["ds"]["att"]])
        for l in u["ds"]["lists"]:
            self.ds.add_tree_list(self.lists[l])
        for m in u["ds"]["mats"]:
            self.ds.add_char_matrix(self.mats[m])
        return self

    # ------------------------------------------------------------------ real -> abstract
    @staticmethod
    def node_taxa(tree):
        """taxon objects of all taxon-bearing nodes, preorder over the raw child lists"""
        out, seen = [], set()
        seed = getattr(tree, "_seed_node", None)
        stack = [seed] if seed is not None else []
        while stack and len(seen) < 5000:
            nd = stack.pop()
            if id(nd) in seen:
                continue
            seen.add(id(nd))
            tx = getattr(nd, "taxon", None)
            if tx is not None:
                out.append(tx)
            stack.extend(reversed(list(getattr(nd, "_child_nodes", ()))))
        return out

    def project(self, first=()):
        """Identities are handed out in a fixed order: results of the call, data set components, list
        members, namespaces of containers, namespace members, remaining references."""
        d = self.d
        for o in first:
            if isinstance(o, d.TreeList):
                self.lists.id(o)
            elif isinstance(o, d.CharacterMatrix):
                self.mats.id(o)
            elif isinstance(o, d.Tree):
                self.trees.id(o)
        ds = self.ds
        ds_lists = [self.lists.id(x) for x in list(ds.tree_lists)]
        ds_mats = [self.mats.id(x) for x in list(ds.char_matrices)]
        lists = []
        i = 0
        while i < len(self.lists):
            tl = self.lists.objs[i]
            i += 1
            lists.append({"ns": self.ns.id(tl._taxon_namespace), "trees": [self.trees.id(t) for t in list(tl._trees)]})
        tree_ns = [self.ns.id(t._taxon_namespace) for t in self.trees.objs]
        mats_ns = [self.ns.id(m._taxon_namespace) for m in self.mats.objs]
        arrs = [{"ns": self.ns.id(a._taxon_namespace), "sd": self.ns.id(a._split_distribution._taxon_namespace),
                 "n": len(a._tree_split_bitmasks)} for a in self.arrs.objs]
        att = self.ns.id(ds.attached_taxon_namespace)
        for n in list(ds.taxon_namespaces):
            self.ns.id(n)
        nss = [{"mem": [self.tax.id(t) for t in list(n._taxa)], "cs": bool(n.is_case_sensitive)} for n in self.ns.objs]
        trees = [{"ns": tree_ns[k], "refs": [self.tax.id(x) for x in self.node_taxa(t)]} for k, t in enumerate(self.trees.objs)]
        mats = [{"ns": mats_ns[k], "rows": [self.tax.id(x) for x in list(m._taxon_sequence_map.keys())]}
                for k, m in enumerate(self.mats.objs)]
        memos = [[[self.tax.id(o), self.tax.id(t)] for o, t in list(mm.items())] for mm in self.memos]
        labels = [t.label if isinstance(t.label, str) else "<%r>" % (t.label,) for t in self.tax.objs]
        return {"labels": labels, "ns": nss, "trees": trees, "lists": lists, "mats": mats, "arrs": arrs,
                "ds": {"att": att, "lists": ds_lists, "mats": ds_mats}, "memos": memos}

    # ------------------------------------------------------------------ one public call
    def _do(self, name, a, rng):
        """returns (callable, via): the real call for a model action"""
        d, L, T, N, M, A, X = self.d, self.lists, self.trees, self.ns, self.mats, self.arrs, self.tax
        ds = self.ds
        pick = lambda *vs: vs[rng.randrange(len(vs))]
        nskw = lambda k: ({"taxon_namespace": N[k]} if k else {})
        if name == "TLAppend":
            return (lambda: L[a["l"]].append(T[a["t"]], taxon_import_strategy=a["strat"])), "append"
        if name == "TLInsert":
            return (lambda: L[a["l"]].insert(a["i"], T[a["t"]], taxon_import_strategy=a["strat"])), "insert"
        if name == "TLExtendList":
            via = pick("extend", "iadd")
            if via == "extend":
                return (lambda: L[a["l"]].extend(L[a["l2"]])), via
            return (lambda: L[a["l"]].__iadd__(L[a["l2"]])), via
        if name == "TLExtendTrees":
            via = pick("extend-list", "iadd-tuple", "extend-iter")
            ts = [T[t] for t in a["ts"]]
            if via == "extend-list":
                return (lambda: L[a["l"]].extend(ts)), via
            if via == "iadd-tuple":
                return (lambda: L[a["l"]].__iadd__(tuple(ts))), via
            return (lambda: L[a["l"]].extend(iter(ts))), via
        if name == "TLAddList":
            return (lambda: L[a["l"]] + L[a["l2"]]), "add"
        if name == "TLAddTrees":
            return (lambda: L[a["l"]] + [T[t] for t in a["ts"]]), "add"
        if name == "TLSetItem":
            return (lambda: L[a["l"]].__setitem__(a["i"], T[a["t"]])), "setitem"
        if name == "TLSetSliceList":
            return (lambda: L[a["l"]].__setitem__(slice(a["lo"], a["hi"]), L[a["l2"]])), "setslice"
        if name == "TLSetSliceTrees":
            return (lambda: L[a["l"]].__setitem__(slice(a["lo"], a["hi"]), [T[t] for t in a["ts"]])), "setslice"
        if name == "TLGetSlice":
            return (lambda: L[a["l"]][a["lo"]:a["hi"]]), "getslice"
        if name == "TLRemoveAt":
            if a["how"] == "pop":
                return (lambda: L[a["l"]].pop(a["i"])), "pop"
            if a["how"] == "del":
                return (lambda: L[a["l"]].__delitem__(a["i"])), "del"
            return (lambda: L[a["l"]].remove(L[a["l"]][a["i"]])), "remove"
        if name == "TLClear":
            return (lambda: L[a["l"]].clear()), "clear"
        if name == "TLNewTree":
            return (lambda: L[a["l"]].new_tree(**nskw(a["nsarg"]))), "new_tree"
        if name == "TLRead":
            data = "\n".join(newick_of(s) for s in a["srcs"])
            return (lambda: L[a["l"]].read(data=data, schema="newick", rooting="force-rooted",
                                           case_sensitive_taxon_labels=bool(L[a["l"]].taxon_namespace.is_case_sensitive))), "read"
        if name == "TLCtorList":
            return (lambda: d.TreeList(L[a["l"]], **nskw(a["nsarg"]))), "TreeList(list)"
        if name == "TLCtorTrees":
            return (lambda: d.TreeList([T[t] for t in a["ts"]], **nskw(a["nsarg"]))), "TreeList(iterable)"
        if name == "TLMigrate":
            via = pick("migrate", "assign+reconstruct")
            if via == "migrate":
                return (lambda: L[a["l"]].migrate_taxon_namespace(N[a["n"]], unify_taxa_by_label=a["unify"])), via

            def reassign():
                L[a["l"]].taxon_namespace = N[a["n"]]
                L[a["l"]].reconstruct_taxon_namespace(unify_taxa_by_label=a["unify"])
            return reassign, via
        if name == "TLReconstruct":
            return (lambda: L[a["l"]].reconstruct_taxon_namespace(unify_taxa_by_label=a["unify"])), "reconstruct"
        if name == "TLClearReconstruct":
            def clear_reconstruct():
                L[a["l"]].taxon_namespace.clear()
                L[a["l"]].reconstruct_taxon_namespace(unify_taxa_by_label=a["unify"])
            return clear_reconstruct, "clear+reconstruct"
        if name == "TLUpdate":
            return (lambda: L[a["l"]].update_taxon_namespace()), "update"
        if name == "TreeMigrate":
            return (lambda: T[a["t"]].migrate_taxon_namespace(N[a["n"]], unify_taxa_by_label=a["unify"])), "migrate"
        if name == "TreeClone":
            return (lambda: d.Tree(T[a["t"]], **nskw(a["nsarg"]))), "Tree(tree)"
        if name == "TLAppendMemo":
            if a["how"] == "insert":
                return (lambda: L[a["l"]].insert(0, T[a["t"]], taxon_mapping_memo=self.memos[a["k"] - 1])), "insert+memo"
            return (lambda: L[a["l"]].append(T[a["t"]], taxon_mapping_memo=self.memos[a["k"] - 1])), "append+memo"
        if name == "TLMigrateMemo":
            via = pick("migrate", "assign+reconstruct")
            if via == "migrate":
                return (lambda: L[a["l"]].migrate_taxon_namespace(N[a["n"]], taxon_mapping_memo=self.memos[a["k"] - 1])), via

            def reassign_memo():
                L[a["l"]].taxon_namespace = N[a["n"]]
                L[a["l"]].reconstruct_taxon_namespace(taxon_mapping_memo=self.memos[a["k"] - 1])
            return reassign_memo, via
        if name == "TreeMigrateMemo":
            return (lambda: T[a["t"]].migrate_taxon_namespace(N[a["n"]], taxon_mapping_memo=self.memos[a["k"] - 1])), "migrate+memo"
        if name == "CMMigrateMemo":
            return (lambda: M[a["m"]].migrate_taxon_namespace(N[a["n"]], taxon_mapping_memo=self.memos[a["k"] - 1])), "migrate+memo"
        if name in ("TLNewTreeSeed", "TreeFromSeed"):
            # a node structure made by hand: existing Taxon objects (of whatever namespace) and brand-new ones
            def seeded():
                taxa = [X[r] for r in a["refs"]] + [d.Taxon(label=lab) for lab in a["labs"]]
                seed = vbuild.build_node(d, tree_shape(len(taxa)), taxa)
                if name == "TLNewTreeSeed":
                    return L[a["l"]].new_tree(seed_node=seed)
                return d.Tree(seed_node=seed, **nskw(a["nsarg"]))
            return seeded, "seed_node"
        if name == "TAAdd":
            via = pick("add_tree", "append", "insert", "add_trees")
            arr, t = A[a["a"]], T[a["t"]]
            if via == "add_tree":
                return (lambda: arr.add_tree(t)), via
            if via == "append":
                return (lambda: arr.append(t)), via
            if via == "insert":
                return (lambda: arr.insert(0, t)), via
            return (lambda: arr.add_trees([t])), via
        if name == "TARead":
            data = "\n".join(newick_of(s) for s in a["srcs"])
            return (lambda: A[a["a"]].read(data=data, schema="newick", rooting="force-rooted",
                                           case_sensitive_taxon_labels=bool(A[a["a"]].taxon_namespace.is_case_sensitive))), "read"
        if name == "CMNewSeq":
            return (lambda: M[a["m"]].new_sequence(X[a["t"]], ["0", "1"])), "new_sequence"
        if name == "CMSetItem":
            return (lambda: M[a["m"]].__setitem__(X[a["t"]], ["1", "1"])), "setitem"
        if name == "CMGetTaxon":      # item access, e.g. cm[t].extend(...)
            return (lambda: (M[a["m"]][X[a["t"]]], None)[1]), "getitem-taxon"
        if name == "CMGetLabel":
            return (lambda: (M[a["m"]][a["lab"]], None)[1]), "getitem-label"
        if name == "CMGetIndex":
            return (lambda: (M[a["m"]][a["i"]], None)[1]), "getitem-index"
        if name == "CMMigrate":
            return (lambda: M[a["m"]].migrate_taxon_namespace(N[a["n"]], unify_taxa_by_label=a["unify"])), "migrate"
        if name == "CMReconstruct":
            return (lambda: M[a["m"]].reconstruct_taxon_namespace(unify_taxa_by_label=a["unify"])), "reconstruct"
        if name == "CMClearReconstruct":
            def cm_clear_reconstruct():
                M[a["m"]].taxon_namespace.clear()
                M[a["m"]].reconstruct_taxon_namespace(unify_taxa_by_label=a["unify"])
            return cm_clear_reconstruct, "clear+reconstruct"
        if name == "CMUpdate":
            return (lambda: M[a["m"]].update_taxon_namespace()), "update"
        if name == "CMFromDict":
            src = collections.OrderedDict((k, "01") for k in a["keys"])
            cs = bool(N[a["nsarg"]].is_case_sensitive) if a["nsarg"] else False
            return (lambda: d.StandardCharacterMatrix.from_dict(src, case_sensitive_taxon_labels=cs, **nskw(a["nsarg"]))), "from_dict"
        if name == "CMClone":
            return (lambda: type(M[a["m"]])(M[a["m"]], **nskw(a["nsarg"]))), "Matrix(matrix)"
        if name == "DSRead":
            if ds.attached_taxon_namespace is not None:
                cs = bool(ds.attached_taxon_namespace.is_case_sensitive)
            else:
                cs = bool(N[a["nsarg"]].is_case_sensitive) if a["nsarg"] else False
            data = nexus_of(a["src"])
            return (lambda: ds.read(data=data, schema="nexus", case_sensitive_taxon_labels=cs, **nskw(a["nsarg"]))), "read"
        if name == "DSReadBlocks":
            if ds.attached_taxon_namespace is not None:
                cs = bool(ds.attached_taxon_namespace.is_case_sensitive)
            else:
                cs = bool(N[a["nsarg"]].is_case_sensitive) if a["nsarg"] else False
            data = nexml_of(a["blocks"])
            return (lambda: ds.read(data=data, schema="nexml", case_sensitive_taxon_labels=cs, **nskw(a["nsarg"]))), "read-nexml"
        if name == "DSAddList":
            via = pick("add", "add_tree_list")
            return (lambda: getattr(ds, via)(L[a["l"]])), via
        if name == "DSAddMat":
            via = pick("add", "add_char_matrix")
            return (lambda: getattr(ds, via)(M[a["m"]])), via
        if name == "DSNewList":
            return (lambda: ds.new_tree_list(**nskw(a["nsarg"]))), "new_tree_list"
        if name == "DSNewMat":
            return (lambda: ds.new_char_matrix("standard", **nskw(a["nsarg"]))), "new_char_matrix"
        if name == "DSAttach":
            return (lambda: ds.attach_taxon_namespace(N[a["n"]])), "attach"
        if name == "DSDetach":
            return (lambda: ds.detach_taxon_namespace()), "detach"
        if name == "DSUnify":
            return (lambda: ds.unify_taxon_namespaces(N[a["nsarg"]] if a["nsarg"] else None)), "unify"
        raise KeyError(name)

    def _operands_exist(self, name, a):
        has = lambda reg, k, zero=False: isinstance(k, int) and ((zero and k == 0) or 1 <= k <= len(reg))
        for k, v in a.items():
            if k in ("l", "l2") and not has(self.lists, v):
                return False
            if k == "t" and not has(self.tax if name.startswith("CM") else self.trees, v):
                return False
            if k == "ts" and not all(has(self.trees, t) for t in v):
                return False
            if k == "n" and not has(self.ns, v):
                return False
            if k == "nsarg" and not has(self.ns, v, True):
                return False
            if k == "m" and not has(self.mats, v):
                return False
            if k == "a" and not has(self.arrs, v):
                return False
            if k == "k" and not has(self.memos, v):
                return False
            if k == "refs" and not all(has(self.tax, t) for t in v):
                return False
        return True

    def call(self, name, a, rng, pre=None):
        """Perform the call; log it.  Operands that do not exist in this world make the call impossible:
        it is logged with raised='NO-OPERAND' (the judge sees the precondition is not met)."""
        pre = pre if pre is not None else self.project()
        if self._operands_exist(name, a):
            fn, via = self._do(name, a, rng)
            kind, val, _ = budget.run_with_budget(fn, STEP_LIMIT)
        else:                       # an identity the model has but this world does not (after a divergence)
            kind, val, via = "noop", None, "none"
        if kind == "ok":
            raised = ""
            res = val if isinstance(val, (list, tuple)) else (val,)
        elif kind == "exc":
            raised, res = type(val).__name__, ()
        elif kind == "hang":
            raised, res = "HANG", ()
        else:
            raised, res = "NO-OPERAND", ()
        post = self.project(first=res)
        return {"action": name, "args": a, "via": via, "pre": pre, "post": post, "raised": raised}
