"""Total projections of real dendropy objects to the abstract JSON states of
spec/TreeBase.tla (DESIGN 3.1).  No dendropy iterator, reader or writer is
used: only raw attributes (_child_nodes, _parent_node, _edge, _head_node), so
that ill-formed object graphs are representable and the traversals (C15) can
be judged against the projection.
"""
from fractions import Fraction

NODE_CAP = 400
LSCALE = 4          # edge lengths are logged as integers: length * LSCALE


class TaxonCodes(object):
    """taxon object -> code.  Members of the namespace: accession index + 1;
    foreign taxon objects: 1000 + k in order of first sight."""

    def __init__(self, ns=None):
        self.ns = ns
        self.foreign = {}
        self.keep = []

    def code(self, t):
        if t is None:
            return 0
        ns = self.ns
        if ns is not None:
            try:
                if t in ns:
                    return int(ns.accession_index(t)) + 1
            except Exception:
                pass
        k = self.foreign.get(id(t))
        if k is None:
            k = 1000 + len(self.foreign)
            self.foreign[id(t)] = k
            self.keep.append(t)
        return k


def scaled_len(v, scale=LSCALE):
    """edge length -> integer in units of 1/scale; -1 for None, -2 when not exactly representable"""
    if v is None:
        return -1
    try:
        f = Fraction(v) * scale
    except Exception:
        return -2
    if f.denominator != 1 or f < 0 or f > 10 ** 8:
        return -2
    return int(f)


def tree_graph(tree, codes=None, scale=LSCALE, node_ids=None, labels=True):
    """Raw pointer graph of a Tree (or of a subtree given by a seed Node)."""
    seed = getattr(tree, "_seed_node", None)
    if seed is None and hasattr(tree, "_child_nodes"):
        seed = tree
    ns = getattr(tree, "taxon_namespace", None)
    if codes is None:
        codes = TaxonCodes(ns)
    ids = {}
    order = []

    def nid(nd):
        if nd is None:
            return 0
        k = ids.get(id(nd))
        if k is None:
            if len(order) >= NODE_CAP:
                return 0
            order.append(nd)
            k = len(order)
            ids[id(nd)] = k
        return k

    if seed is None:
        return {"n": 0, "seed": 0, "kids": [], "par": [], "eh": [], "eid": [], "tx": [], "len": [], "lab": [],
                "rooted": _rooted(tree)}
    # discovery: preorder through raw child lists, each object numbered (and expanded) once
    st = [seed]
    while st:
        nd = st.pop()
        if id(nd) in ids:
            continue
        if nid(nd) == 0:
            break
        for c in reversed(list(getattr(nd, "_child_nodes", ()) or ())):
            st.append(c)
    seen = set(ids)
    # nodes only referenced through parent pointers or edge heads
    i = 0
    while i < len(order):
        nd = order[i]
        i += 1
        p = getattr(nd, "_parent_node", None)
        if p is not None:
            nid(p)
        e = getattr(nd, "_edge", None)
        h = getattr(e, "_head_node", None) if e is not None else None
        if h is not None:
            nid(h)
        if id(nd) not in seen:
            seen.add(id(nd))
            for c in list(getattr(nd, "_child_nodes", ()) or ()):
                nid(c)
    eids = {}
    g = {"n": len(order), "seed": ids[id(seed)], "kids": [], "par": [], "eh": [], "eid": [], "tx": [], "len": [],
         "lab": [], "rooted": _rooted(tree)}
    for nd in order:
        g["kids"].append([nid(c) for c in list(getattr(nd, "_child_nodes", ()) or ())])
        g["par"].append(nid(getattr(nd, "_parent_node", None)))
        e = getattr(nd, "_edge", None)
        if e is None:
            g["eh"].append(0)
            g["eid"].append(0)
            g["len"].append(-1)
        else:
            g["eh"].append(nid(getattr(e, "_head_node", None)))
            g["eid"].append(eids.setdefault(id(e), len(eids) + 1))
            g["len"].append(scaled_len(getattr(e, "length", None), scale))
        g["tx"].append(codes.code(getattr(nd, "taxon", None)))
        lab = getattr(nd, "_label", None)
        g["lab"].append(lab if isinstance(lab, str) and labels else ("" if lab is None or not labels else repr(lab)))
    if node_ids is not None:
        node_ids.update(ids)
        node_ids["__order__"] = list(order)
    return g


def _rooted(tree):
    r = getattr(tree, "is_rooted", None)
    if r is None:
        r = getattr(tree, "_is_rooted", None)
    return -1 if r is None else (1 if r else 0)


def bits(n):
    """non-negative int bitmask -> ascending list of set bit indices ([-1] if not representable)"""
    if not isinstance(n, int) or n < 0:
        return [-1]
    out, i = [], 0
    while n:
        if n & 1:
            out.append(i)
        n >>= 1
        i += 1
    return out


def codes_of_mask(n):
    """bitmask -> taxon codes (bit index + 1), matching TaxonCodes for namespace members"""
    return [b + 1 for b in bits(n)]


def rat(x, max_den=10 ** 6):
    """float -> [num, den, exact?] with the round-trip check of DESIGN 3.2"""
    if x is None:
        return [0, 0, False]
    f = Fraction(x).limit_denominator(max_den)
    ok = abs(float(f) - float(x)) <= 1e-12 * max(1.0, abs(float(x)))
    if abs(f.numerator) >= 2 ** 31 or f.denominator >= 2 ** 31:
        return [0, 0, False]
    return [f.numerator, f.denominator, bool(ok)]
