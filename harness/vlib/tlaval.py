"""Parser for TLA+ values as TLC prints them (state dumps, dot labels,
counterexamples) and for `-dump dot,actionlabels` graphs.

Values map to Python: <<..>> -> list, {..} -> frozenset, [a |-> ..] -> dict,
(k :> v @@ ..) -> dict, strings, ints, TRUE/FALSE, model values -> str.
"""
import re


class ParseError(Exception):
    pass


_TOK = re.compile(r"""\s*(?:
    (?P<str>"(?:[^"\\]|\\.)*") |
    (?P<int>-?\d+) |
    (?P<sym><<|>>|\|->|:>|@@|[\[\]{}(),]) |
    (?P<id>[A-Za-z_][A-Za-z0-9_]*)
)""", re.X)


def _tokens(s):
    pos = 0
    out = []
    n = len(s)
    while pos < n:
        m = _TOK.match(s, pos)
        if not m:
            if s[pos:].strip() == "":
                break
            raise ParseError("cannot tokenize at %r" % s[pos:pos + 30])
        pos = m.end()
        if m.group("str") is not None:
            out.append(("str", bytes(m.group("str")[1:-1], "utf8").decode("unicode_escape")))
        elif m.group("int") is not None:
            out.append(("int", int(m.group("int"))))
        elif m.group("sym") is not None:
            out.append(("sym", m.group("sym")))
        else:
            out.append(("id", m.group("id")))
    return out


class _P(object):
    def __init__(self, toks):
        self.t = toks
        self.i = 0

    def peek(self):
        return self.t[self.i] if self.i < len(self.t) else (None, None)

    def next(self):
        x = self.peek()
        self.i += 1
        return x

    def expect(self, sym):
        k, v = self.next()
        if k != "sym" or v != sym:
            raise ParseError("expected %s got %r" % (sym, v))

    def value(self):
        k, v = self.next()
        if k == "str" or k == "int":
            return v
        if k == "id":
            if v == "TRUE":
                return True
            if v == "FALSE":
                return False
            return v
        if k == "sym":
            if v == "<<":
                return self.seq(">>", list)
            if v == "{":
                return frozenset(_hashable(x) for x in self.seq("}", list))
            if v == "[":
                d = {}
                if self.peek() == ("sym", "]"):
                    self.next()
                    return d
                while True:
                    k2, name = self.next()
                    self.expect("|->")
                    d[name] = self.value()
                    k3, s3 = self.next()
                    if s3 == "]":
                        return d
                    if s3 != ",":
                        raise ParseError("bad record")
            if v == "(":
                d = {}
                while True:
                    key = self.value()
                    self.expect(":>")
                    d[_hashable(key)] = self.value()
                    k3, s3 = self.next()
                    if s3 == ")":
                        return d
                    if s3 != "@@":
                        raise ParseError("bad function")
        raise ParseError("unexpected token %r" % (v,))

    def seq(self, close, ctor):
        out = []
        if self.peek() == ("sym", close):
            self.next()
            return ctor(out)
        while True:
            out.append(self.value())
            k, v = self.next()
            if v == close:
                return ctor(out)
            if v != ",":
                raise ParseError("bad sequence, got %r" % (v,))


def _hashable(x):
    if isinstance(x, list):
        return tuple(_hashable(y) for y in x)
    if isinstance(x, dict):
        return tuple(sorted((k, _hashable(v)) for k, v in x.items()))
    return x


def parse_value(s):
    p = _P(_tokens(s))
    v = p.value()
    if p.i != len(p.t):
        raise ParseError("trailing tokens in %r" % s[:80])
    return v


def parse_state(s):
    r"""'/\ a = 1\n/\ b = <<>>' -> {'a': 1, 'b': []}"""
    out = {}
    parts = re.split(r"(?:^|\n)\s*/\\ ", s)
    for part in parts:
        part = part.strip()
        if not part:
            continue
        name, _, val = part.partition(" = ")
        out[name.strip()] = parse_value(val)
    return out


def parse_action_label(lbl):
    """'AddTaxon(2)' -> ('AddTaxon', [2]);  'ClearAll' -> ('ClearAll', [])"""
    m = re.match(r"^([A-Za-z_][A-Za-z0-9_]*)(?:\((.*)\))?$", lbl, re.S)
    if not m:
        raise ParseError("bad action label %r" % lbl)
    name, args = m.group(1), m.group(2)
    if args is None or args.strip() == "":
        return name, []
    return name, parse_value("<<" + args + ">>")


_EDGE = re.compile(r'^(-?\d+) -> (-?\d+) \[label="((?:[^"\\]|\\.)*)"')
_NODE = re.compile(r'^(-?\d+) \[label="((?:[^"\\]|\\.)*)"(,style = filled)?')


def read_dot(path, with_states="init"):
    """Returns (init_ids, edges, states): edges = [(src, dst, action, args)];
    states are parsed for the initial nodes only ("init"), for all ("all") or not at all (None)."""
    inits, edges, states = [], [], {}
    with open(path) as f:
        for line in f:
            m = _EDGE.match(line)
            if m:
                lbl = m.group(3).replace('\\"', '"').replace("\\\\", "\\")
                name, args = parse_action_label(lbl)
                edges.append((m.group(1), m.group(2), name, args))
                continue
            m = _NODE.match(line)
            if m:
                if m.group(3):
                    inits.append(m.group(1))
                if with_states == "all" or (with_states == "init" and m.group(3)):
                    txt = m.group(2).replace("\\n", "\n").replace('\\"', '"').replace("\\\\", "\\")
                    states[m.group(1)] = parse_state(txt)
    return inits, edges, states


def shortest_paths(inits, edges):
    """BFS spanning forest: node -> list of (action, args) from an initial node."""
    adj = {}
    for (u, v, a, args) in edges:
        adj.setdefault(u, []).append((v, a, args))
    path = {i: [] for i in inits}
    root = {i: i for i in inits}
    queue = list(inits)
    qi = 0
    while qi < len(queue):
        u = queue[qi]
        qi += 1
        for (v, a, args) in adj.get(u, ()):
            if v not in path:
                path[v] = path[u] + [(a, args)]
                root[v] = root[u]
                queue.append(v)
    return path, root


def read_dump(path):
    """`tlc -dump FILE` output -> list of states (dicts var -> value)"""
    with open(path) as f:
        txt = f.read()
    out = []
    for chunk in re.split(r"(?m)^State \d+:\s*$", txt):
        chunk = chunk.strip()
        if not chunk:
            continue
        if not chunk.startswith("/\\"):
            chunk = "/\\ " + chunk
        out.append(parse_state(chunk))
    return out


def selftest():
    assert parse_value('<<1, "a", {2, 3}, [x |-> TRUE, y |-> <<>>], (1 :> "q" @@ 2 :> "r")>>') == \
        [1, "a", frozenset([2, 3]), {"x": True, "y": []}, {1: "q", 2: "r"}]
    assert parse_action_label('RemoveLabel("a", -1, TRUE, FALSE)') == ("RemoveLabel", ["a", -1, True, False])
    assert parse_action_label("ClearAll") == ("ClearAll", [])
    assert parse_state('/\\ nops = 0\n/\\ s = [ cs |-> FALSE,\n  members |-> <<>> ]') == \
        {"nops": 0, "s": {"cs": False, "members": []}}
    return True


if __name__ == "__main__":
    selftest()
    print("tlaval selftest ok")
