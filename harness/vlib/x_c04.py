"""C04 helper: building real trees from the graph form of spec/TreeBase.tla,
calling the public tree-comparison API and projecting its results.

No oracle lives here: results are *represented* (int, list of bit indices,
float -> rational), never computed or compared.
"""
import warnings

from . import proj

LSCALE = proj.LSCALE


# ------------------------------------------------------------------ building
def nested_of_graph(g):
    """graph form (TLC record or projected dict; node ids 1..n) -> nested form of vlib/build.py, plus
    the preorder list of model node ids (the order in which build_node creates the nodes)"""
    order = []

    def mk(x):
        order.append(x)
        kids = [mk(c) for c in g["kids"][x - 1]]
        tx = g["tx"][x - 1]
        ln = g["len"][x - 1]
        return [None, (tx - 1) if tx else None, None if ln < 0 else ln / float(LSCALE), kids]
    return mk(g["seed"]), order


def build(dendropy, g, ns, taxa):
    """real Tree for a graph form; returns (tree, {model node id: Node})"""
    nested, order = nested_of_graph(g)
    made = []

    def bn(nd):
        lab, tx, ln, kids = nd
        node = dendropy.Node(edge_length=ln)
        made.append(node)
        if tx is not None:
            node.taxon = taxa[tx]
        for k in kids:
            node.add_child(bn(k))
        return node
    seed = bn(nested)
    tree = dendropy.Tree(seed_node=seed, taxon_namespace=ns)
    r = g["rooted"]
    tree.is_rooted = None if r < 0 else bool(r)
    return tree, dict(zip(order, made))


def graph_of_nested(nested, rooted):
    """nested form (taxon indices, lengths as floats or None) -> graph form with preorder ids (for case files)"""
    g = {"n": 0, "seed": 1, "kids": [], "par": [], "eh": [], "eid": [], "tx": [], "len": [], "lab": [], "rooted": rooted}

    def rec(nd, par):
        g["n"] += 1
        x = g["n"]
        for k in ("kids", "par", "eh", "eid", "tx", "len", "lab"):
            g[k].append(None)
        g["kids"][x - 1] = []
        g["par"][x - 1] = par
        g["eh"][x - 1] = x
        g["eid"][x - 1] = x
        g["tx"][x - 1] = 0 if nd[1] is None else nd[1] + 1
        g["len"][x - 1] = -1 if nd[2] is None else int(round(nd[2] * LSCALE))
        g["lab"][x - 1] = ""
        for c in nd[3]:
            g["kids"][x - 1].append(rec(c, x))
        return x
    rec(nested, 0)
    return g


# ------------------------------------------------------------------ projections
def graph(tree):
    g = proj.tree_graph(tree, labels=False)
    del g["lab"]            # node labels play no role in C04 (keeps the events small)
    return g


def cache(tree):
    """tree.bipartition_encoding as logged state: the split bitmasks as lists of taxon codes"""
    enc = getattr(tree, "bipartition_encoding", None)
    if enc is None:
        return {"has": False, "s": []}
    out = []
    for b in list(enc):
        out.append(proj.codes_of_mask(getattr(b, "split_bitmask", None)))
    return {"has": True, "s": out}


def _rat(v):
    try:
        r = proj.rat(v)
    except Exception:
        return [0, 0, 0]
    return [int(r[0]), int(r[1]), 1 if r[2] else 0]


def represent(kind, v):
    """(n, sp) for a returned value"""
    if kind == "rf":
        return ([v] if isinstance(v, int) and not isinstance(v, bool) and abs(v) < 2 ** 30 else [-999]), []
    if kind == "fpn":
        try:
            a, b = v
            ok = all(isinstance(x, int) and not isinstance(x, bool) and abs(x) < 2 ** 30 for x in (a, b))
        except Exception:
            ok = False
        return ([a, b] if ok else [-999, -999]), []
    if kind == "missing":
        try:
            return [], [proj.codes_of_mask(getattr(b, "split_bitmask", None)) for b in list(v)]
        except Exception:
            return [], [[0]]
    if kind == "wrf":
        return (_rat(v) if isinstance(v, (int, float)) and not isinstance(v, bool) else [0, 0, 0]), []
    if kind == "euc":
        return (_rat(v * v) if isinstance(v, (int, float)) and not isinstance(v, bool) else [0, 0, 0]), []
    raise ValueError(kind)


def api_table(tc):
    """name -> (kind, callable(a, b, flag)); flag None = default arguments"""
    def kw(flag):
        return {} if flag is None else {"is_bipartitions_updated": flag}
    return {
        "symmetric_difference": ("rf", lambda a, b, f: tc.symmetric_difference(a, b, **kw(f))),
        "unweighted_robinson_foulds_distance": ("rf", lambda a, b, f: tc.unweighted_robinson_foulds_distance(a, b, **kw(f))),
        "Tree.symmetric_difference": ("rf", lambda a, b, f: a.symmetric_difference(b)),
        "false_positives_and_negatives": ("fpn", lambda a, b, f: tc.false_positives_and_negatives(a, b, **kw(f))),
        "Tree.false_positives_and_negatives": ("fpn", lambda a, b, f: a.false_positives_and_negatives(b)),
        "find_missing_bipartitions": ("missing", lambda a, b, f: tc.find_missing_bipartitions(a, b, **kw(f))),
        "weighted_robinson_foulds_distance": ("wrf", lambda a, b, f: tc.weighted_robinson_foulds_distance(a, b, **kw(f))),
        "robinson_foulds_distance": ("wrf", lambda a, b, f: tc.robinson_foulds_distance(a, b)),
        "Tree.robinson_foulds_distance": ("wrf", lambda a, b, f: a.robinson_foulds_distance(b)),
        "euclidean_distance": ("euc", lambda a, b, f: tc.euclidean_distance(a, b, **kw(f))),
        "Tree.euclidean_distance": ("euc", lambda a, b, f: a.euclidean_distance(b)),
    }


ALL_APIS = ["symmetric_difference", "unweighted_robinson_foulds_distance", "Tree.symmetric_difference",
            "false_positives_and_negatives", "Tree.false_positives_and_negatives", "find_missing_bipartitions",
            "weighted_robinson_foulds_distance", "robinson_foulds_distance", "Tree.robinson_foulds_distance",
            "euclidean_distance", "Tree.euclidean_distance"]
FLAG_APIS = {"rf": "symmetric_difference", "fpn": "false_positives_and_negatives", "missing": "find_missing_bipartitions",
             "wrf": "weighted_robinson_foulds_distance", "euc": "euclidean_distance"}


# every public entry point of a kind; only the first of each list takes is_bipartitions_updated
KIND_APIS = {"rf": ["symmetric_difference", "unweighted_robinson_foulds_distance", "Tree.symmetric_difference"],
             "fpn": ["false_positives_and_negatives", "Tree.false_positives_and_negatives"],
             "missing": ["find_missing_bipartitions"],
             "wrf": ["weighted_robinson_foulds_distance", "robinson_foulds_distance", "Tree.robinson_foulds_distance"],
             "euc": ["euclidean_distance", "Tree.euclidean_distance"]}


def call(table, api, a, b, ord_, flag=None, pr=0, with_flag=False):
    """one logged call; the outcome (value or exception type) is recorded, never interpreted"""
    kind, fn = table[api]
    # small events: "sp" only for the kind that returns bipartitions, "pr" only in triples, "flag" only in histories
    rec = {"api": api, "kind": kind, "ord": ord_, "raised": "", "n": []}
    if kind == "missing":
        rec["sp"] = []
    if pr:
        rec["pr"] = pr
    if with_flag:
        rec["flag"] = bool(flag)
    with warnings.catch_warnings():
        warnings.simplefilter("ignore")
        try:
            v = fn(a, b, flag)
        except Exception as ex:          # logged as the outcome and judged by TLC
            rec["raised"] = type(ex).__name__
            return rec
    n, sp = represent(kind, v)
    rec["n"] = n
    if kind == "missing":
        rec["sp"] = sp
    return rec
