"""C04 helper: building real trees from the graph form of spec/TreeBase.tla,
calling the public tree-comparison API and projecting its results.

No oracle lives here: results are *represented* (int, list of bit indices,
float -> rational), never computed or compared.
"""
import warnings
from fractions import Fraction

from . import proj

LSCALE = proj.LSCALE


# ------------------------------------------------------------------ building
def nested_of_graph(g):
    """graph form (TLC record or projected dict; node ids 1..n) -> nested form of vlib/build.py, plus
    the preorder list of model node ids (the order in which build_node creates the nodes)"""
    order = []

    def mk(x):
        order.append(x)
        kids = [mk(c) for c in g["kids"][x - 1]]
        tx = g["tx"][x - 1]
        ln = g["len"][x - 1]
        return [None, (tx - 1) if tx else None, None if ln < 0 else ln / float(LSCALE), kids]
    return mk(g["seed"]), order


BIG_BASE = float(2 ** 32)      # "large lengths, small differences": every edge is hi * BIG_BASE + quarter units


def build(dendropy, g, ns, taxa, sexp=0, big=False):
    """real Tree for a graph form; returns (tree, {model node id: Node}).
    sexp: every length is multiplied by 2**sexp (exact in floating point);
    big:  every present non-seed length q/4 becomes BIG_BASE + q/4 (exact: 2**32 + quarters needs 36 bits)"""
    nested, order = nested_of_graph(g)
    made = []
    unit = 2.0 ** sexp

    def bn(nd, is_seed=False):
        lab, tx, ln, kids = nd
        if ln is not None:
            ln = ln * unit
            if big and not is_seed:
                ln = BIG_BASE + ln
        node = dendropy.Node(edge_length=ln)
        made.append(node)
        if tx is not None:
            node.taxon = taxa[tx]
        for k in kids:
            node.add_child(bn(k))
        return node
    seed = bn(nested, True)
    tree = dendropy.Tree(seed_node=seed, taxon_namespace=ns)
    r = g["rooted"]
    tree.is_rooted = None if r < 0 else bool(r)
    return tree, dict(zip(order, made))


def graph_of_nested(nested, rooted):
    """nested form (taxon indices, lengths as floats or None) -> graph form with preorder ids (for case files)"""
    g = {"n": 0, "seed": 1, "kids": [], "par": [], "eh": [], "eid": [], "tx": [], "len": [], "lab": [], "rooted": rooted}

    def rec(nd, par):
        g["n"] += 1
        x = g["n"]
        for k in ("kids", "par", "eh", "eid", "tx", "len", "lab"):
            g[k].append(None)
        g["kids"][x - 1] = []
        g["par"][x - 1] = par
        g["eh"][x - 1] = x
        g["eid"][x - 1] = x
        g["tx"][x - 1] = 0 if nd[1] is None else nd[1] + 1
        g["len"][x - 1] = -1 if nd[2] is None else int(round(nd[2] * LSCALE))
        g["lab"][x - 1] = ""
        for c in nd[3]:
            g["kids"][x - 1].append(rec(c, x))
        return x
    rec(nested, 0)
    return g


# ------------------------------------------------------------------ projections
def graph(tree, sexp=0):
    """raw-pointer projection; lengths in units of 2**sexp / 4 (the scale is divided out exactly, a length
    that is not a whole number of units is logged as -2 and rejected by the judge)"""
    g = proj.tree_graph(tree, labels=False, scale=Fraction(LSCALE) / (Fraction(2) ** sexp))
    del g["lab"]            # node labels play no role in C04 (keeps the events small)
    return g


def graph_big(tree):
    """projection for large lengths: length = hi * BIG_BASE + len / 4 with 0 <= len / 4 < BIG_BASE / 2**12
    (a purely syntactic split of the float; anything else is logged as -2)"""
    ids = {}
    g = proj.tree_graph(tree, labels=False, scale=0, node_ids=ids)      # lengths filled in below
    del g["lab"]
    order = ids["__order__"]
    g["len"], g["hi"] = [], []
    for nd in order:
        e = getattr(nd, "_edge", None)
        v = getattr(e, "length", None) if e is not None else None
        if v is None:
            g["len"].append(-1)
            g["hi"].append(0)
            continue
        try:
            f = Fraction(v)
            hi = int(f // Fraction(BIG_BASE))
            lo = (f - hi * Fraction(BIG_BASE)) * LSCALE
            ok = f >= 0 and lo.denominator == 1 and lo < 2 ** 20 and hi < 2 ** 10
        except Exception:
            ok = False
        g["len"].append(int(lo) if ok else -2)
        g["hi"].append(hi if ok else 0)
    return g


def cache(tree):
    """tree.bipartition_encoding as logged state: the split bitmasks as lists of taxon codes"""
    enc = getattr(tree, "bipartition_encoding", None)
    if enc is None:
        return {"has": False, "s": []}
    out = []
    for b in list(enc):
        out.append(proj.codes_of_mask(getattr(b, "split_bitmask", None)))
    return {"has": True, "s": out}


def _rat(v):
    try:
        r = proj.rat(v)
    except Exception:
        return [0, 0, 0]
    return [int(r[0]), int(r[1]), 1 if r[2] else 0]


def represent_big(kind, v):
    """weighted value over large lengths: <<num, den, exact, hi, negative>> with v = hi * BIG_BASE + (+-)num/den,
    hi the nearest multiple (syntactic split of the float); for the Euclidean distance the square of v is
    represented when v is small (hi = 0)"""
    if not isinstance(v, (int, float)) or isinstance(v, bool) or v != v or abs(v) > 2.0 ** 45:
        return [0, 0, 0, 0, 0]
    f = Fraction(v)
    hi = int(round(f / Fraction(BIG_BASE)))
    rest = f - hi * Fraction(BIG_BASE)
    if kind == "euc":
        if hi != 0:
            return [0, 0, 0, hi, 0]
        r = _rat(v * v)
        return r + [0, 0]
    r = _rat(float(abs(rest)))
    if Fraction(float(abs(rest))) != abs(rest):
        r = [0, 0, 0]
    return r + [hi, 1 if rest < 0 else 0]


def represent(kind, v, unit=1.0):
    """(n, sp) for a returned value; unit: the power of two all lengths of the case were multiplied by
    (divided out exactly before the float is represented as a rational)"""
    if unit != 1.0 and kind in ("wrf", "euc") and isinstance(v, (int, float)) and not isinstance(v, bool):
        v = v / unit
    if kind == "rf":
        return ([v] if isinstance(v, int) and not isinstance(v, bool) and abs(v) < 2 ** 30 else [-999]), []
    if kind == "fpn":
        try:
            a, b = v
            ok = all(isinstance(x, int) and not isinstance(x, bool) and abs(x) < 2 ** 30 for x in (a, b))
        except Exception:
            ok = False
        return ([a, b] if ok else [-999, -999]), []
    if kind == "missing":
        try:
            return [], [proj.codes_of_mask(getattr(b, "split_bitmask", None)) for b in list(v)]
        except Exception:
            return [], [[0]]
    if kind == "wrf":
        return (_rat(v) if isinstance(v, (int, float)) and not isinstance(v, bool) else [0, 0, 0]), []
    if kind == "euc":
        return (_rat(v * v) if isinstance(v, (int, float)) and not isinstance(v, bool) else [0, 0, 0]), []
    raise ValueError(kind)


def api_table(tc):
    """name -> (kind, callable(a, b, flag)); flag None = default arguments"""
    def kw(flag):
        return {} if flag is None else {"is_bipartitions_updated": flag}
    return {
        "symmetric_difference": ("rf", lambda a, b, f: tc.symmetric_difference(a, b, **kw(f))),
        "unweighted_robinson_foulds_distance": ("rf", lambda a, b, f: tc.unweighted_robinson_foulds_distance(a, b, **kw(f))),
        "Tree.symmetric_difference": ("rf", lambda a, b, f: a.symmetric_difference(b)),
        "false_positives_and_negatives": ("fpn", lambda a, b, f: tc.false_positives_and_negatives(a, b, **kw(f))),
        "Tree.false_positives_and_negatives": ("fpn", lambda a, b, f: a.false_positives_and_negatives(b)),
        "find_missing_bipartitions": ("missing", lambda a, b, f: tc.find_missing_bipartitions(a, b, **kw(f))),
        "weighted_robinson_foulds_distance": ("wrf", lambda a, b, f: tc.weighted_robinson_foulds_distance(a, b, **kw(f))),
        "robinson_foulds_distance": ("wrf", lambda a, b, f: tc.robinson_foulds_distance(a, b)),
        "Tree.robinson_foulds_distance": ("wrf", lambda a, b, f: a.robinson_foulds_distance(b)),
        "euclidean_distance": ("euc", lambda a, b, f: tc.euclidean_distance(a, b, **kw(f))),
        "Tree.euclidean_distance": ("euc", lambda a, b, f: a.euclidean_distance(b)),
    }


ALL_APIS = ["symmetric_difference", "unweighted_robinson_foulds_distance", "Tree.symmetric_difference",
            "false_positives_and_negatives", "Tree.false_positives_and_negatives", "find_missing_bipartitions",
            "weighted_robinson_foulds_distance", "robinson_foulds_distance", "Tree.robinson_foulds_distance",
            "euclidean_distance", "Tree.euclidean_distance"]
FLAG_APIS = {"rf": "symmetric_difference", "fpn": "false_positives_and_negatives", "missing": "find_missing_bipartitions",
             "wrf": "weighted_robinson_foulds_distance", "euc": "euclidean_distance"}


# every public entry point of a kind; only the first of each list takes is_bipartitions_updated
KIND_APIS = {"rf": ["symmetric_difference", "unweighted_robinson_foulds_distance", "Tree.symmetric_difference"],
             "fpn": ["false_positives_and_negatives", "Tree.false_positives_and_negatives"],
             "missing": ["find_missing_bipartitions"],
             "wrf": ["weighted_robinson_foulds_distance", "robinson_foulds_distance", "Tree.robinson_foulds_distance"],
             "euc": ["euclidean_distance", "Tree.euclidean_distance"]}


def call(table, api, a, b, ord_, flag=None, pr=0, with_flag=False, sexp=0, big=False):
    """one logged call; the outcome (value or exception type) is recorded, never interpreted"""
    kind, fn = table[api]
    # small events: "sp" only for the kind that returns bipartitions, "pr" only in triples, "flag" only in histories
    rec = {"api": api, "kind": kind, "ord": ord_, "raised": "", "n": []}
    if kind == "missing":
        rec["sp"] = []
    if pr:
        rec["pr"] = pr
    if with_flag:
        rec["flag"] = bool(flag)
    with warnings.catch_warnings():
        warnings.simplefilter("ignore")
        try:
            v = fn(a, b, flag)
        except Exception as ex:          # logged as the outcome and judged by TLC
            rec["raised"] = type(ex).__name__
            return rec
    if big:
        rec["n"] = represent_big(kind, v)
        rec["z"] = bool(isinstance(v, (int, float)) and v == 0)
        return rec
    n, sp = represent(kind, v, 2.0 ** sexp)
    rec["n"] = n
    if kind == "missing":
        rec["sp"] = sp
    return rec
