"""C18 helpers: scripted / recording random sources, GLOBAL_RNG proxy, fixed-point
projection of simulated trees, argument builders, and the two-run driver.

No oracle here: the module builds arguments, turns TLC decision sequences into the
values a random source returns, calls the real simulators, and projects what came
back.  Every judgement (tip counts, taxa, bifurcation, equidistance, divergence
order, equality of the two runs, absence of global draws, model conformance) is
made by TLC in spec/Trace_TreeSim.tla.
"""
import hashlib
import random
import sys

from . import proj
from . import budget

STEP_LIMIT = 4000000
BU, DU = 2, 1                      # scripted rates: birth = BU/2, death = DU/2 (or 0)
_LOGGED = ("random", "uniform", "triangular", "randint", "randrange", "choice", "choices", "sample", "shuffle",
           "expovariate", "gauss", "normalvariate", "lognormvariate", "gammavariate", "betavariate",
           "paretovariate", "weibullvariate", "vonmisesvariate", "getrandbits", "randbytes", "binomialvariate")


class LoggingRandom(random.Random):
    """A real Mersenne-Twister generator that records its outermost public calls.
    The stream is that of random.Random(seed): getrandbits is defined here, so
    _randbelow keeps using it as in the base class."""

    def __init__(self, seed, src):
        self.src = src
        self.calls = []
        self._depth = 0
        random.Random.__init__(self, seed)


def _wrap(name):
    base = getattr(random.Random, name, None)
    if base is None:
        return None

    def f(self, *a, **k):
        if self._depth == 0:
            self.calls.append(name)
        self._depth += 1
        try:
            return base(self, *a, **k)
        finally:
            self._depth -= 1
    f.__name__ = name
    return f


for _n in _LOGGED:
    _f = _wrap(_n)
    if _f is not None:
        setattr(LoggingRandom, _n, _f)
# (re)derive _randbelow as random.Random.__init_subclass__ would for a class defining getrandbits
LoggingRandom._randbelow = random.Random._randbelow_with_getrandbits


class ScriptedRandom(random.Random):
    """Returns the values chosen by a TLC behaviour; records every call.

    script: list of dicts {"m": method, ..., "dec": index into the decision list or -1}.
      expovariate -> float(v)            random -> num/den (midpoint of the target bin)
      gauss -> mu                         randint -> v          choice -> seq[v]
      sample -> [pop[i] for i in v]       shuffle -> x[:] = [x[p-1] for p in perm]
    A call that does not fit the next entry (other method, impossible value, script
    exhausted) is answered by the underlying seeded generator from then on and counted
    in `desync` (reported as drift by the judge, never as a violation)."""

    def __init__(self, script, fallback_seed, src="rng"):
        random.Random.__init__(self, fallback_seed)
        self.script = list(script)
        self.pos = 0
        self.src = src
        self.calls = []          # method names, outermost calls
        self.consumed = []       # indices of decisions consumed, in order
        self.desync = 0
        self._depth = 0

    # -- plumbing
    def _next(self, m):
        if self._depth:
            return None
        self.calls.append(m)
        if self.pos < len(self.script) and self.script[self.pos]["m"] == m:
            return self.script[self.pos]
        self._lost()
        return None

    def _lost(self):
        self.desync += 1
        self.pos = len(self.script)

    def _take(self, e):
        self.pos += 1
        if e.get("dec", -1) >= 0:
            self.consumed.append(e["dec"])

    def _real(self, name, *a, **k):
        self._depth += 1
        try:
            return getattr(random.Random, name)(self, *a, **k)
        finally:
            self._depth -= 1

    # -- scripted methods
    def random(self):
        if self._depth:
            return random.Random.random(self)
        e = self._next("random")
        if e is None:
            return self._real("random")
        self._take(e)
        return float(e["num"]) / float(e["den"])

    def expovariate(self, lambd=1.0):
        e = self._next("expovariate")
        if e is None:
            return self._real("expovariate", lambd)
        self._take(e)
        return float(e["v"])

    def gauss(self, mu=0.0, sigma=1.0):
        e = self._next("gauss")
        if e is None:
            return self._real("gauss", mu, sigma)
        self._take(e)
        return mu

    def randint(self, a, b):
        e = self._next("randint")
        if e is None:
            return self._real("randint", a, b)
        if not (a <= e["v"] <= b):
            self._lost()
            return self._real("randint", a, b)
        self._take(e)
        return e["v"]

    def choice(self, seq):
        e = self._next("choice")
        if e is None:
            return self._real("choice", seq)
        if not (0 <= e["v"] < len(seq)):
            self._lost()
            return self._real("choice", seq)
        self._take(e)
        return seq[e["v"]]

    def sample(self, population, k, **kw):
        e = self._next("sample")
        if e is None:
            return self._real("sample", population, k, **kw)
        idx = e["v"]
        if len(idx) != k or any(not (0 <= i < len(population)) for i in idx) or len(set(idx)) != len(idx):
            self._lost()
            return self._real("sample", population, k, **kw)
        self._take(e)
        return [population[i] for i in idx]

    def shuffle(self, x):
        e = self._next("shuffle")
        if e is None:
            return self._real("shuffle", x)
        perm = e["perm"]
        if perm == "reverse":
            perm = list(range(len(x), 0, -1))
        if sorted(perm) != list(range(1, len(x) + 1)):
            self._lost()
            return self._real("shuffle", x)
        self._take(e)
        x[:] = [x[p - 1] for p in perm]
        return None

    def uniform(self, a, b):
        self._next("uniform")
        return self._real("uniform", a, b)


# ---------------------------------------------------------------------- GLOBAL_RNG proxy
def simulator_modules():
    import dendropy
    import dendropy.utility
    import dendropy.calculate.probability
    import dendropy.model.birthdeath
    import dendropy.model.coalescent
    import dendropy.simulate.treesim
    return dendropy


def install_global(proxy):
    """Replace GLOBAL_RNG by `proxy` in every loaded dendropy module that imported it.
    Returns the list of (module, old) for restore()."""
    simulator_modules()
    done = []
    for name, mod in list(sys.modules.items()):
        if mod is None or not (name == "dendropy" or name.startswith("dendropy.")):
            continue
        if "GLOBAL_RNG" in getattr(mod, "__dict__", {}):
            done.append((mod, mod.__dict__["GLOBAL_RNG"]))
            mod.GLOBAL_RNG = proxy
    return done


def restore_global(done):
    for mod, old in done:
        mod.GLOBAL_RNG = old


def _pystate():
    return hashlib.sha1(repr(random.getstate()).encode()).hexdigest()[:16]


# ---------------------------------------------------------------------- projection
def library_precision():
    from dendropy.utility import constants
    return constants.DEFAULT_ULTRAMETRICITY_PRECISION


def pick_scale(trees):
    """fixed-point unit: the largest of 10^7, 10^6, 10^5, 10^4 under which every sum of edge
    lengths of every given tree stays below 2^31 (TLC integers are 32 bit)"""
    tot = 0.0
    for t in trees:
        s = 0.0
        for nd in _nodes(t):
            ln = getattr(getattr(nd, "_edge", None), "length", None)
            if isinstance(ln, (int, float)):
                s += abs(float(ln))
        tot = max(tot, s)
    for sc in (10 ** 7, 10 ** 6, 10 ** 5, 10 ** 4):
        if tot * sc < 2.0e9:
            return sc
    return 1


def _nodes(tree):
    seed = getattr(tree, "_seed_node", None)
    out, st, seen = [], [seed] if seed is not None else [], set()
    while st and len(out) < proj.NODE_CAP:
        nd = st.pop()
        if id(nd) in seen:
            continue
        seen.add(id(nd))
        out.append(nd)
        st.extend(getattr(nd, "_child_nodes", ()) or ())
    return out


def graph_fixed(tree, scale, codes=None):
    """proj.tree_graph with the edge lengths as fixed-point integers (None -> 0), plus
    lenx (exact float.hex of every length, "" for None) and txl (taxon labels)."""
    ids = {}
    g = proj.tree_graph(tree, codes=codes, node_ids=ids, labels=False)
    order = ids.pop("__order__")
    ln, lx, tl = [], [], []
    for nd in order:
        v = getattr(getattr(nd, "_edge", None), "length", None)
        if isinstance(v, (int, float)):
            ln.append(int(round(float(v) * scale)))
            lx.append(float(v).hex())
        else:
            ln.append(0)
            lx.append("" if v is None else repr(v))
        t = getattr(nd, "taxon", None)
        lab = getattr(t, "label", None) if t is not None else None
        tl.append("" if t is None else ("<None>" if lab is None else str(lab)))
    g["len"] = ln
    return g, lx, tl, order


class LabelCodes(object):
    """taxon -> 1 + position of the first namespace member with the same label (1000+k when there is none).
    Used for constrained_kingman_tree only: with decorate_original_tree=False the gene nodes are deep copies,
    so the leaves of the returned gene tree carry *copies* of the taxa of its namespace."""

    def __init__(self, ns):
        self.pos = {}
        for i, t in enumerate(ns):
            self.pos.setdefault(t.label, i + 1)
        self.other = {}

    def code(self, t):
        if t is None:
            return 0
        c = self.pos.get(t.label)
        if c is None:
            c = self.other.setdefault(id(t), 1000 + len(self.other))
        return c


EMPTY_G = {"n": 0, "seed": 0, "kids": [], "par": [], "eh": [], "eid": [], "tx": [], "len": [], "lab": [], "rooted": -1}


# ---------------------------------------------------------------------- argument builders
def species_tree(dendropy, spec):
    """spec: {"par": 1-based preorder parent array, "len": lengths, "labels": leaf labels in preorder}.
    Returns (tree, namespace); taxa are added in preorder leaf order (code i = i-th leaf)."""
    par, lens = spec["par"], spec["len"]
    n = len(par)
    ns = dendropy.TaxonNamespace()
    nodes = [dendropy.Node(edge_length=lens[i]) for i in range(n)]
    haskid = set(p for p in par if p > 0)
    k = 0
    for i in range(n):
        if par[i] > 0:
            nodes[par[i] - 1].add_child(nodes[i])
    for i in range(n):
        if (i + 1) not in haskid:
            nodes[i].taxon = ns.new_taxon(spec["labels"][k])
            k += 1
    t = dendropy.Tree(seed_node=nodes[0], taxon_namespace=ns)
    t.is_rooted = True
    return t, ns


def start_tree(dendropy, spec):
    """supplied `tree=` for the birth-death simulators: an ultrametric tree with extant tips"""
    t, ns = species_tree(dendropy, spec)
    return t


def bd_script(hist, sim, n0, death_zero):
    """decisions -> values of the random source, in the order the simulator asks for them"""
    bu, du = BU, (0 if death_zero else DU)
    out = []
    n = n0
    for i, d in enumerate(hist):
        k = d["k"]
        if k == "W":
            out.append({"m": "expovariate", "v": d["x"], "dec": i})
        elif k in ("B", "D"):
            l = d["x"]
            if sim == "bd":
                lo2 = 2 * (l - 1) * (bu + du) + (0 if k == "B" else 2 * bu)
                w = bu if k == "B" else du
                out.append({"m": "random", "num": lo2 + w, "den": 2 * n * (bu + du), "dec": i})
                if k == "B":
                    out.extend({"m": "gauss", "dec": -1} for _ in range(4))
            elif sim == "fast":
                out.append({"m": "randint", "v": l - 1, "dec": -1})
                out.append({"m": "random", "num": bu if k == "B" else 2 * bu + du, "den": 2 * (bu + du), "dec": i})
            else:
                out.append({"m": "choice", "v": l - 1, "dec": i})
            n += 1 if k == "B" else -1
            if n == 0:
                n = n0
        elif k == "C":
            out.append({"m": "sample", "v": [d["x"] - 1, d["y"] - 1], "dec": i})
        elif k == "T":
            out.append({"m": "shuffle", "perm": "reverse", "dec": -1})
            out.append({"m": "shuffle", "perm": list(d["p"]), "dec": i})
    return out


# ---------------------------------------------------------------------- arguments, histories, one simulator call
def _ns_labels(case):
    if case.get("nslabels") is not None:
        return list(case["nslabels"])
    if case["api"] in ("uniform_pure_birth_tree", "pure_kingman_tree"):
        return ["s%d" % (i + 1) for i in range(case["N"])]
    return ["%s%d" % (case.get("nsprefix", "s"), i + 1) for i in range(case["ns"])]


def _consecutive(G):
    return [t + 1 for t, k in enumerate(G) for _ in range(k)]


def build_args(dendropy, case):
    """Fresh argument objects from the description `case` (a dict A of the objects a caller would hold)."""
    api = case["api"]
    A = {}
    if api in ("birth_death_tree", "fast_birth_death_tree"):
        if case.get("start"):
            A["tree"] = start_tree(dendropy, case["start"])
        elif case.get("ns", -1) >= 0 or case.get("nslabels") is not None:
            A["ns"] = dendropy.TaxonNamespace(_ns_labels(case))
    elif api in ("uniform_pure_birth_tree", "pure_kingman_tree"):
        A["ns"] = dendropy.TaxonNamespace(_ns_labels(case))
    else:
        sp, sns = species_tree(dendropy, case["sp"])
        A["sp"], A["sns"] = sp, sns
        if case.get("edge_pop"):
            for nd, p in zip(_preorder(sp), case["edge_pop"]):
                nd.edge.pop_size = p
        if api == "contained_coalescent_tree":
            if case.get("gm") is None:
                A["map"] = dendropy.TaxonNamespaceMapping.create_contained_taxon_mapping(
                    containing_taxon_namespace=sns, num_contained=list(case["G"]))
            else:
                # the same gene taxa (labels, order) as create_contained_taxon_mapping gives for G, assigned as gm says
                gm0 = _consecutive(case["G"])
                dom = dendropy.TaxonNamespace()
                md, cnt = {}, {}
                for i, c0 in enumerate(gm0):
                    cnt[c0] = cnt.get(c0, 0) + 1
                    gt = dendropy.Taxon(label="%s %d" % (sns[c0 - 1].label, cnt[c0]))
                    dom.append(gt)
                    md[gt] = sns[case["gm"][i] - 1]
                A["map"] = dendropy.TaxonNamespaceMapping(mapping_dict=md, domain_taxon_namespace=dom, range_taxon_namespace=sns)
        elif case["strategy"] == "node_attribute":
            for lf, k in zip([nd for nd in _preorder(sp) if not nd._child_nodes], case["G"]):
                lf.num_genes = k
    return A


def invoke(dendropy, case, A, rng):
    """Call the real simulator on the argument objects A.  Returns (tree, species_tree|None,
    {id(gene leaf node): species taxon code according to the arguments as they are NOW})."""
    from dendropy.model import birthdeath
    from dendropy.simulate import treesim
    api = case["api"]
    kw = {}
    if rng is not None:
        kw["rng"] = rng
    if api in ("birth_death_tree", "fast_birth_death_tree"):
        fn = treesim.birth_death_tree if api == "birth_death_tree" else birthdeath.fast_birth_death_tree
        if "tree" in A:
            kw["tree"] = A["tree"]
        elif "ns" in A:
            kw["taxon_namespace"] = A["ns"]
        return fn(birth_rate=case["birth"], death_rate=case["death"], num_extant_tips=case["N"], **kw), None, {}
    if api == "uniform_pure_birth_tree":
        return treesim.uniform_pure_birth_tree(A["ns"], birth_rate=case["birth"], **kw), None, {}
    if api == "pure_kingman_tree":
        return treesim.pure_kingman_tree(A["ns"], pop_size=case["pop"], **kw), None, {}
    sp, sns = A["sp"], A["sns"]
    if api == "contained_coalescent_tree":
        m = A["map"]
        t = treesim.contained_coalescent_tree(sp, m, default_pop_size=case.get("pop", 1), **kw)
        scodes = proj.TaxonCodes(sns)
        lsp = {}
        for nd in _nodes(t):
            if not nd._child_nodes and nd.taxon is not None and nd.taxon in m.forward:
                lsp[id(nd)] = scodes.code(m[nd.taxon])
        return t, sp, lsp
    if api == "constrained_kingman_tree":
        strat = case["strategy"]
        if strat == "node_attribute":
            t, pt = treesim.constrained_kingman_tree(sp, gene_sampling_strategy="node_attribute", **kw)
        elif strat == "fixed_per_population":
            t, pt = treesim.constrained_kingman_tree(sp, gene_sampling_strategy="fixed_per_population",
                                                     num_genes=case["G"][0], **kw)
        else:
            t, pt = treesim.constrained_kingman_tree(sp, num_genes=case["num_genes"], **kw)
        scodes = proj.TaxonCodes(pt.taxon_namespace)
        lsp = {}
        for lf in [nd for nd in _preorder(pt) if not nd._child_nodes]:
            for gn in getattr(lf, "gene_nodes", ()) or ():
                lsp[id(gn)] = scodes.code(lf.taxon)
        return t, pt, lsp
    raise ValueError("unknown api %r" % (api,))


def apply_op(dendropy, case, A, op, k, keep):
    """One step of an argument history, on the SAME objects: an earlier simulator call or a modification in place."""
    o = op["op"]
    if o == "call":
        keep.append(invoke(dendropy, case, A, LoggingRandom(case["seed"] * 31 + 977 + k, "rng")))
    elif o == "remap":
        m, sns, p = A["map"], A["sns"], op["p"]
        scodes = proj.TaxonCodes(sns)
        new = dict((gt, sns[p[scodes.code(st) - 1] - 1]) for gt, st in list(m.items()))
        how = op.get("how", "dict")
        dom, rng_ns = m.domain_taxon_namespace, m.range_taxon_namespace
        if how == "dict":
            m.apply_mapping_dict(new, domain_taxon_namespace=dom, range_taxon_namespace=rng_ns)
        elif how == "fn":
            m.apply_mapping_fn(lambda t: new[t], domain_taxon_namespace=dom, range_taxon_namespace=rng_ns)
        else:
            for gt, st in new.items():
                gt.c18_species = st
            m.apply_mapping_attr_name("c18_species", domain_taxon_namespace=dom, range_taxon_namespace=rng_ns)
    elif o == "annotate":
        # what a caller does to look at the tree: ages, root distances, bipartitions get cached on its nodes/edges
        t = A["sp"] if "sp" in A else A["tree"]
        what = op.get("what", "all")
        if what in ("ages", "all"):
            t.calc_node_ages(ultrametricity_precision=False)
        if what in ("internal_ages", "all"):
            keep.append(t.internal_node_ages(ultrametricity_precision=False))
        if what in ("root_dist", "all"):
            t.calc_node_root_distances()
        if what in ("bipartitions", "all"):
            t.encode_bipartitions()
    elif o == "edit_len":
        t = A["sp"] if "sp" in A else A["tree"]
        if op.get("how") == "scale_edges":
            t.scale_edges(op["f"])
        else:
            for nd in _preorder(t):
                if nd.edge.length is not None:
                    nd.edge.length = nd.edge.length * op["f"]
    elif o == "edit_pop":
        for nd, q in zip(_preorder(A["sp"]), op["pops"]):
            nd.edge.pop_size = q
    elif o == "set_genes":
        for lf, g in zip([nd for nd in _preorder(A["sp"]) if not nd._child_nodes], op["G"]):
            lf.num_genes = g
    elif o == "relabel":
        for i, lab in op["labels"]:
            if i < len(A["ns"]):
                A["ns"][i].label = lab
    elif o == "add_taxa":
        for lab in op["labels"]:
            A["ns"].new_taxon(lab)
    else:
        raise ValueError("unknown history op %r" % (o,))


def current_desc(case, A):
    """The description of the arguments as they are after the history: what a caller would build afresh."""
    f = dict(case)
    f["ops"] = []
    for op in case.get("ops", ()):
        o = op["op"]
        if o == "remap":
            gm0 = f["gm"] if f.get("gm") is not None else _consecutive(f["G"])
            f["gm"] = [op["p"][c - 1] for c in gm0]
        elif o == "edit_len":
            key = "sp" if f.get("sp") else "start"
            f[key] = dict(f[key], len=[x * op["f"] for x in f[key]["len"]])
        elif o == "edit_pop":
            f["edge_pop"] = list(op["pops"])
        elif o == "set_genes":
            f["G"] = list(op["G"])
            f["ntaxa"] = sum(op["G"])
    if "ns" in A:
        f["nslabels"] = [t.label for t in A["ns"]]      # read off the namespace object as it is now
        if case["api"] in ("uniform_pure_birth_tree", "pure_kingman_tree"):
            f["N"] = f["ntaxa"] = len(f["nslabels"])
    return f


def _hops(ops):
    """label of an argument history: "reused" (an earlier simulator call on the same objects) and the modifications"""
    names = (["reused"] if any(op["op"] == "call" for op in ops) else []) + [op["op"] for op in ops if op["op"] != "call"]
    return "+".join(names)


def call_sim(dendropy, case, rng):
    return invoke(dendropy, case, build_args(dendropy, case), rng)


def _preorder(tree):
    out, st = [], [tree._seed_node]
    while st:
        nd = st.pop()
        out.append(nd)
        st.extend(reversed(nd._child_nodes))
    return out


def one_run(dendropy, thunk, rng, gproxy, keep):
    """One real execution of thunk() -> (tree, sp, lsp).  Returns a dict with the raw results (objects kept alive in `keep`)."""
    patched = install_global(gproxy)
    # observe restarts (the only caller of Node.clear_child_nodes on the paths exercised here is the
    # restart-after-total-extinction block): used by the judge as a class discriminator only
    node_cls = dendropy.Node
    orig_clear = node_cls.clear_child_nodes
    nclear = [0]

    def counting_clear(self, *a, **k):
        nclear[0] += 1
        return orig_clear(self, *a, **k)
    node_cls.clear_child_nodes = counting_clear
    py0 = _pystate()
    try:
        kind, val, steps = budget.run_with_budget(thunk, STEP_LIMIT)
    finally:
        node_cls.clear_child_nodes = orig_clear
        restore_global(patched)
    py1 = _pystate()
    r = {"raised": "", "tree": None, "sp": None, "lsp": {}, "py0": py0, "py1": py1, "steps": steps, "nclear": nclear[0]}
    if kind == "ok":
        r["tree"], r["sp"], r["lsp"] = val
    elif kind == "hang":
        r["raised"] = "StepBudgetExceeded"
    else:
        r["raised"] = type(val).__name__
    keep.append((r, rng, gproxy))
    return r


def run_twice(case):
    """The event of one case: two executions from equal generator states, fresh (equal) arguments,
    different global-generator states when an rng argument is supplied."""
    dendropy = simulator_modules()
    keep = []
    seed = case["seed"]
    via = case.get("via", "rng")
    runs, rngs, gps = [], [], []
    hraised, cur = "", case
    for k in (0, 1):
        if case["kind"] == "script":
            rng = ScriptedRandom(case["script"], seed)
            gp = LoggingRandom(seed * 7 + 11 + 1000003 * k, "global")
        elif via == "rng":
            rng = LoggingRandom(seed, "rng")
            gp = LoggingRandom(seed * 7 + 11 + 1000003 * k, "global")
        else:
            rng = None
            gp = LoggingRandom(seed, "global")
        # the second run sees another memory layout (object ids differ), as a re-run of a script would
        keep.append([object() for _ in range(1 + (seed + 3 * k) % 13)])
        if k == 0:
            # run 1: the argument objects with their history (earlier calls, modifications in place)
            A = build_args(dendropy, case)
            for j, op in enumerate(case.get("ops", ())):
                patched = install_global(LoggingRandom(seed * 13 + j, "global"))
                try:
                    kind, val, _ = budget.run_with_budget(lambda: apply_op(dendropy, case, A, op, j, keep), STEP_LIMIT)
                finally:
                    restore_global(patched)
                if kind != "ok":
                    hraised = "%s:%s" % (op["op"], "StepBudgetExceeded" if kind == "hang" else type(val).__name__)
            cur = current_desc(case, A)
            runs.append(one_run(dendropy, lambda: invoke(dendropy, cur, A, rng), rng, gp, keep))
        else:
            # run 2: freshly built equal arguments (the current state of the arguments), equal generator state
            runs.append(one_run(dendropy, lambda: call_sim(dendropy, cur, rng), rng, gp, keep))
        rngs.append(rng)
        gps.append(gp)
    trees = [r["tree"] for r in runs if r["tree"] is not None] + [r["sp"] for r in runs if r["sp"] is not None]
    scale = pick_scale(trees)
    prec = proj.rat(library_precision())
    ev = {"action": "Sim", "kind": case["kind"], "api": case["api"], "model": case["model"], "via": via,
          "shape": case["shape"], "N": cur.get("N", 0), "ntaxa": cur.get("ntaxa", 0),
          "scale": scale, "prec": prec[:2], "seed": seed,
          "hops": _hops(case.get("ops", ())), "hraised": hraised}
    for k, r in enumerate(runs):
        s = str(k + 1)
        if r["tree"] is not None:
            codes = LabelCodes(r["tree"].taxon_namespace) if case["api"] == "constrained_kingman_tree" else None
            g, lx, tl, order = graph_fixed(r["tree"], scale, codes=codes)
        else:
            g, lx, tl, order = dict(EMPTY_G), [], [], []
        ev["g" + s], ev["lenx" + s], ev["txl" + s] = g, lx, tl
        ev["gsp" + s] = [r["lsp"].get(id(nd), 0) for nd in order]     # species code of every gene leaf (0 elsewhere)
        ev["raised" + s] = r["raised"]
        ev["gcalls" + s] = list(gps[k].calls[:6]) if via == "rng" else []
        ev["ngcalls" + s] = len(gps[k].calls)
        ev["py" + s] = [r["py0"], r["py1"]]
        ev["nclear" + s] = r["nclear"]
        ev["nrng" + s] = len(rngs[k].calls) if rngs[k] is not None else 0
    r = runs[0]
    if r["sp"] is not None:
        ev["sp"] = graph_fixed(r["sp"], scale)[0]
    else:
        ev["sp"] = dict(EMPTY_G)
    if case["kind"] == "script":
        hist = case["hist"]
        ev["cs"] = case["cs"]
        ev["decs"] = [hist[i] for i in rngs[0].consumed]
        ev["ndec"] = len(hist)
        ev["desync"] = rngs[0].desync + rngs[1].desync
    else:
        ev["cs"] = {"sim": "none", "N": 0, "start": "single", "sp": {"n": 0}, "gm": []}
        ev["decs"] = []
        ev["ndec"] = 0
        ev["desync"] = 0
    return [ev]


# ---------------------------------------------------------------------- reading TLC's state dump
def _parse_chunk(txt):
    from . import tlaval
    st = tlaval.parse_state(txt)
    a = st["a"]
    return {"cs": st["cs"], "hist": st["hist"], "restarts": a["restarts"], "ndead": len(a["dead"])}


def finished_behaviours(path, procs=16):
    """(number of states, [finished behaviour]) of a `tlc -dump` file: only states whose run is "done" are
    parsed (in parallel); a behaviour = {cs, hist, restarts, ndead}"""
    import multiprocessing
    import re
    chunks, cur, n = [], [], 0
    head = re.compile(r"^State \d+:\s*$")

    def flush():
        if cur:
            txt = "".join(cur).strip()
            if txt and 'ph |-> "done"' in txt:
                chunks.append(txt if txt.startswith("/\\") else "/\\ " + txt)
    with open(path) as f:
        for line in f:
            if head.match(line):
                flush()
                cur = []
                n += 1
            else:
                cur.append(line)
    flush()
    if len(chunks) > 2000:
        pool = multiprocessing.get_context("fork").Pool(procs)
        try:
            out = pool.map(_parse_chunk, chunks, 500)
        finally:
            pool.close()
            pool.join()
    else:
        out = [_parse_chunk(c) for c in chunks]
    return n, out
