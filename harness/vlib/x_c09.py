"""C09 helper: abstract matrices / streams of spec/CharIO.tla <-> real dendropy objects and texts.

Everything here is construction of inputs (matrices through the construction
routes, source documents rendered from an abstract stream) or *syntactic*
projection (a real matrix -> symbol strings, a written text -> the abstract
stream of its format).  Nothing computes an expected result: TLC judges
(spec/Trace_CharIO.tla).

Abstract values (JSON):  label = list of 1-char strings;  cell = symbol string,
"" for an undefined cell, "n/d" for a continuous value;  matrix =
{"type", "taxa": [label], "rows": [[cell]]}.
"""
import collections
import io
import re
from fractions import Fraction
from xml.sax.saxutils import quoteattr

TYPES = ["dna", "rna", "nucleotide", "protein", "standard", "restriction", "infinite", "continuous"]
FORMATS = ["nexus", "phylip", "fasta", "nexml"]
SUPPORTS = {
    "nexus": {"dna", "rna", "nucleotide", "protein", "standard", "continuous"},
    "phylip": set(TYPES),
    "fasta": set(TYPES) - {"continuous"},
    "nexml": {"dna", "rna", "protein", "standard", "restriction", "continuous"},
}
FUND = {"dna": "ACGT", "rna": "ACGU", "nucleotide": "ACGTU", "protein": "ACDEFGHIKLMNPQRSTVWY*",
        "standard": "0123456789", "restriction": "10", "infinite": "10", "continuous": ""}
AMB = {"dna": "NRYMWSKVHDB", "rna": "NRYMWSKVHDB", "nucleotide": "NRYMWSKVHDB", "protein": "BZX"}
GAPMISS = {"dna", "rna", "nucleotide", "protein", "standard"}
NEXUS_DT = {"dna": "DNA", "rna": "RNA", "nucleotide": "NUCLEOTIDE", "protein": "PROTEIN", "continuous": "CONTINUOUS",
            "standard": "STANDARD"}
NEXML_DT = {"dna": "Dna", "rna": "Rna", "protein": "Protein", "restriction": "Restriction", "standard": "Standard",
            "continuous": "Continuous"}


def full_symbols(t):
    """the type's full symbol set, as listed in the state alphabet definitions (for generating inputs)"""
    return list(FUND[t]) + (["-", "?"] if t in GAPMISS else []) + list(AMB.get(t, ""))


def matrix_class(dendropy, t):
    return {"dna": dendropy.DnaCharacterMatrix, "rna": dendropy.RnaCharacterMatrix,
            "nucleotide": dendropy.NucleotideCharacterMatrix, "protein": dendropy.ProteinCharacterMatrix,
            "standard": dendropy.StandardCharacterMatrix, "restriction": dendropy.RestrictionSitesCharacterMatrix,
            "infinite": dendropy.InfiniteSitesCharacterMatrix, "continuous": dendropy.ContinuousCharacterMatrix}[t]


# ----------------------------------------------------------------------------- atoms
def chars(s):
    return list(s)


def lab(cs):
    return "".join(cs)


def ratstr(x):
    """float -> canonical rational literal "n/d" of exactly that double (the small form when it denotes the same
    double, cf. proj.rat; otherwise the exact binary fraction): equal literals <=> equal numbers"""
    try:
        x = float(x)
        f = Fraction(x)
    except Exception:
        return "nan:%r" % (x,)
    g = f.limit_denominator(10 ** 9)
    if float(g) == x:
        f = g
    return "%d/%d" % (f.numerator, f.denominator)


def atom_value(a):
    n, d = a.split("/")
    return float(Fraction(int(n), int(d)))


def atom_text(a):
    return repr(atom_value(a))


_FLOAT = re.compile(r"^[-+]?(\d+\.?\d*|\.\d+)([eE][-+]?\d+)?$")


def _is_float(tok):
    return bool(_FLOAT.match(tok)) or tok.lower() in ("nan", "inf", "-inf")


# ----------------------------------------------------------------------------- projection of real matrices
def cell_symbol(t, v):
    if v is None:
        return ""
    if t == "continuous":
        return ratstr(v)
    s = getattr(v, "symbol", None)
    if s is None:
        return ""
    return str(s)


def project_matrix(m, t=None):
    # raw attributes only (no iterator of the matrix): the rows are the entries of the taxon -> sequence map,
    # in the order of the taxon namespace
    t = t or m.data_type
    taxa, rows = [], []
    seqmap = m._taxon_sequence_map
    for tx in m.taxon_namespace._taxa:
        if tx in seqmap:
            taxa.append(chars(tx.label if tx.label is not None else ""))
            rows.append([cell_symbol(t, v) for v in seqmap[tx]._character_values])
    return {"type": m.data_type, "taxa": taxa, "rows": rows}


EMPTY = {"type": "", "taxa": [], "rows": []}


# ----------------------------------------------------------------------------- construction routes
def _values(t, cells):
    if t == "continuous":
        return [atom_value(c) for c in cells]
    return "".join(cells)


def build_from_dict(dendropy, am, ns=None):
    cls = matrix_class(dendropy, am["type"])
    d = collections.OrderedDict((lab(l), _values(am["type"], r)) for l, r in zip(am["taxa"], am["rows"]))
    if ns is not None:
        return cls.from_dict(d, taxon_namespace=ns)
    return cls.from_dict(d)


def build_concatenated(dendropy, am):
    cls = matrix_class(dendropy, am["type"])
    n = max(len(r) for r in am["rows"])
    k = n // 2
    ns = dendropy.TaxonNamespace([lab(l) for l in am["taxa"]])
    parts = [(0, k), (k, n)] if k >= 1 else [(0, n)]
    ms = []
    for a, b in parts:
        d = collections.OrderedDict((lab(l), _values(am["type"], r[a:b])) for l, r in zip(am["taxa"], am["rows"]))
        ms.append(cls.from_dict(d, taxon_namespace=ns))
    return cls.concatenate(ms)


def with_junk(am, junk):
    """every column preceded by a junk column (to be dropped again by export_character_indices)"""
    rows = []
    for r in am["rows"]:
        q = []
        for c in r:
            q.extend([junk, c])
        rows.append(q)
    return {"type": am["type"], "taxa": am["taxa"], "rows": rows}


def build_exported(dendropy, am, junk):
    """exported from a larger matrix: the parent is itself a concatenation (it carries character subsets),
    except for standard data, whose concatenation is a separate open finding"""
    wide = with_junk(am, junk)
    parent = build_from_dict(dendropy, wide) if am["type"] == "standard" else build_concatenated(dendropy, wide)
    n = max(len(r) for r in am["rows"])
    return parent.export_character_indices([2 * j + 1 for j in range(n)])


def build_exported_typed(dendropy, am, junk):
    """parent parsed from a NeXML document (explicit <char> columns), then exported"""
    st = py_write("nexml", with_junk(am, junk), {"seqs": False})
    cls = matrix_class(dendropy, am["type"])
    parent = cls.get(data=render("nexml", st), schema="nexml")
    n = max(len(r) for r in am["rows"])
    return parent.export_character_indices([2 * j + 1 for j in range(n)])


ROW_OPS = ["extend_matrix", "extend_sequences_new", "add_sequences", "update_sequences", "new_sequence", "setitem"]
COL_OPS = ["extend_columns", "extend_sequences", "replace_sequences", "fill", "remove_sequences", "delitem"]
OBSERVATIONS = ["nexus", "fasta", "nexml", "phylip", "iter", "values", "items", "max_sequence_size"]


def observe(m, how):
    """an observation of the matrix in the middle of its construction (may populate caches)"""
    t = m.data_type
    if how in ("nexus", "fasta", "nexml", "phylip") and t in SUPPORTS[how] and not (how == "phylip" and len(m) != len(m.taxon_namespace)):
        m.as_string(schema=how)
    elif how == "values":
        list(m.values())
    elif how == "items":
        list(m.items())
    elif how == "max_sequence_size":
        m.max_sequence_size
        list(m.sequences())
    else:
        list(iter(m))


def _part(am, rows_idx, c0, c1):
    return {"type": am["type"], "taxa": [am["taxa"][i] for i in rows_idx], "rows": [am["rows"][i][c0:c1] for i in rows_idx]}


def _from_dict_like(dendropy, target, part):
    """another matrix over the namespace (and, for standard data, the state alphabet) of `target`"""
    cls = type(target)
    d = collections.OrderedDict((lab(l), _values(part["type"], r)) for l, r in zip(part["taxa"], part["rows"]))
    kw = {"taxon_namespace": target.taxon_namespace}
    if part["type"] == "standard":
        kw["default_state_alphabet"] = target.default_state_alphabet
    return cls.from_dict(d, **kw)


def build_observed(dendropy, am, op, obs, junk):
    """two-phase route: build a first version, observe it (write / iterate), then complete it with a row or column
    operation so that the final content is `am`"""
    t = am["type"]
    cls = matrix_class(dendropy, t)
    nt = len(am["taxa"])
    nc = max(len(r) for r in am["rows"])
    labels = [lab(l) for l in am["taxa"]]
    allrows = list(range(nt))
    if op in ROW_OPS and nt < 2:
        op = "extend_columns"
    if op in ("extend_columns", "extend_sequences") and nc < 2:
        op = "replace_sequences"
    ns = dendropy.TaxonNamespace(labels)
    first = lambda part: cls.from_dict(collections.OrderedDict((lab(l), _values(t, r)) for l, r in zip(part["taxa"], part["rows"])),
                                       taxon_namespace=ns)
    if op in ROW_OPS:
        k = max(1, nt // 2)
        T = first(_part(am, allrows[:k], 0, nc))
        observe(T, obs)
        rest = _part(am, allrows[k:], 0, nc)
        if op in ("new_sequence", "setitem"):
            for l, r in zip(rest["taxa"], rest["rows"]):
                tx = ns.get_taxon(label=lab(l))
                vals = T.coerce_values(_values(t, r))
                if op == "new_sequence":
                    T.new_sequence(tx, values=vals)
                else:
                    T[tx] = vals
        else:
            O = _from_dict_like(dendropy, T, rest)
            if op == "extend_matrix":
                T.extend_matrix(O)
            elif op == "extend_sequences_new":
                T.extend_sequences(O, is_add_new_sequences=True)
            elif op == "add_sequences":
                T.add_sequences(O)
            else:
                T.update_sequences(O)
        return T
    if op in ("extend_columns", "extend_sequences"):
        kk = max(1, nc // 2)
        T = first(_part(am, allrows, 0, kk))
        observe(T, obs)
        O = _from_dict_like(dendropy, T, _part(am, allrows, kk, nc))
        if op == "extend_columns":
            T.extend_matrix(O)
        else:
            T.extend_sequences(O)
        return T
    if op == "replace_sequences":
        k = nt // 2
        wrong = {"type": t, "taxa": am["taxa"], "rows": [am["rows"][i] if i < k else [junk] * len(am["rows"][i]) for i in allrows]}
        T = first(wrong)
        observe(T, obs)
        T.replace_sequences(_from_dict_like(dendropy, T, _part(am, allrows[k:], 0, nc)))
        return T
    if op == "fill":
        short = {"type": t, "taxa": am["taxa"], "rows": [list(r) for r in am["rows"]]}
        last = short["rows"][-1].pop()
        T = first(short)
        observe(T, obs)
        T.fill(value=(atom_value(last) if t == "continuous" else T.coerce_values(last)[0]), size=nc)
        return T
    if op in ("remove_sequences", "delitem"):
        extra = "zz_extra"
        ns.new_taxon(label=extra)
        more = {"type": t, "taxa": am["taxa"] + [chars(extra)], "rows": am["rows"] + [[junk] * nc]}
        T = first(more)
        observe(T, obs)
        tx = ns.get_taxon(label=extra)
        if op == "remove_sequences":
            T.remove_sequences([tx])
        else:
            del T[tx]
        ns.remove_taxon(tx)
        return T
    raise ValueError(op)


def build_self_combined(dendropy, M, how, am=None):
    """a matrix parsed from NeXML (cells carry column definitions) combined with itself"""
    cls = type(M)
    if how == "typed_self_concatenated":
        return cls.concatenate([M, M])
    if how == "typed_self_extended":
        M.extend_matrix(M)
        return M
    raise ValueError(how)


# ----------------------------------------------------------------------------- python-side rendering of source streams
def _chunks(row, w):
    if w <= 0:
        return [list(row)]
    return [list(row[i:i + w]) for i in range(0, max(len(row), 1), w)]


def _phy_items(t, cells):
    if t != "continuous":
        return list(cells)
    out = []
    for i, c in enumerate(cells):
        if i:
            out.append(" ")
        out.append(c)
    return out


def py_write(fmt, am, lay):
    """An abstract source stream for matrix `am` in layout `lay` (input generation for the real readers;
    TLC reads the same stream with the reference reader)."""
    t = am["type"]
    nt = len(am["taxa"])
    n = max([len(r) for r in am["rows"]] or [0])
    if fmt == "phylip":
        strict, page = lay.get("strict", False), lay.get("page", 0)
        maxlen = max(len(l) for l in am["taxa"])

        def fld(l):
            if strict:
                return (list(l[:10]) + [" "] * 10)[:10]
            return list(l) + [" "] * (maxlen - len(l)) + [" ", " "]
        lines = []
        if page <= 0:
            for l, r in zip(am["taxa"], am["rows"]):
                lines.append(fld(l) + _phy_items(t, r))
        else:
            npages = max(1, (n + page - 1) // page)
            for k in range(npages):
                if k:
                    lines.append([])
                for l, r in zip(am["taxa"], am["rows"]):
                    lines.append((fld(l) if k == 0 else []) + _phy_items(t, r[k * page:(k + 1) * page]))
        return {"ntax": nt, "nchar": n, "lines": lines}
    if fmt == "fasta":
        wrap = lay.get("wrap", 0)
        sp = lay.get("spaces", 0)
        lines = []
        for l, r in zip(am["taxa"], am["rows"]):
            lines.append([">"] + list(l))
            for ch in _chunks(r, wrap):
                if sp and len(ch) > sp:
                    ch = ch[:sp] + [" "] + ch[sp:]
                lines.append(ch)
            lines.append([])
        return {"lines": lines}
    if fmt == "nexus":
        page, match = lay.get("page", 0), lay.get("match", False) and t != "continuous"
        rows = []
        full = []
        for i, r in enumerate(am["rows"]):
            if match and i > 0:
                full.append([("." if j < len(am["rows"][0]) and c == am["rows"][0][j] else c) for j, c in enumerate(r)])
            else:
                full.append(list(r))
        if page <= 0:
            for l, r in zip(am["taxa"], full):
                rows.append({"label": l, "cells": r})
        else:
            npages = max(1, (n + page - 1) // page)
            for k in range(npages):
                for l, r in zip(am["taxa"], full):
                    rows.append({"label": l, "cells": r[k * page:(k + 1) * page]})
        return {"ntax": nt, "nchar": n, "datatype": NEXUS_DT.get(t, "STANDARD"), "gap": lay.get("gap", "-"),
                "missing": lay.get("missing", "?"), "matchchar": ".",
                "symbols": (list(FUND[t]) + ["-"]) if NEXUS_DT.get(t, "STANDARD") == "STANDARD" else [],
                "interleave": page > 0, "rows": rows}
    if fmt == "nexml":
        seqs = lay.get("seqs", False)
        syms = full_symbols(t)
        states = [] if t == "continuous" else [{"id": "s%d" % (k + 1), "sym": s} for k, s in enumerate(syms)]
        if lay.get("shuffle_ids"):
            # ids in an order unrelated to the position of the state / column in the document
            k = len(states)
            states = [{"id": "s%d" % (k - i), "sym": s["sym"]} for i, s in enumerate(states)]
        sid = dict((s["sym"], s["id"]) for s in states)
        cid = ["c%d" % (n - j) for j in range(n)] if lay.get("shuffle_ids") else ["c%d" % (j + 1) for j in range(n)]
        rows = []
        for l, r in zip(am["taxa"], am["rows"]):
            if seqs:
                cells = [{"char": "", "state": c} for c in r]
            else:
                cells = [{"char": cid[j], "state": (c if t == "continuous" else sid[c])} for j, c in enumerate(r)]
                if lay.get("reverse_cells"):
                    cells = cells[::-1]
            rows.append({"label": l, "cells": cells})
        return {"type": NEXML_DT[t], "seqs": seqs, "states": states, "chars": cid, "rows": rows}
    raise ValueError(fmt)


# ----------------------------------------------------------------------------- stream -> text
def _item_text(x):
    return atom_text(x) if "/" in x and len(x) > 1 and x[0] in "-0123456789" else x


def nexus_quote(l):
    return "'" + lab(l).replace("'", "''") + "'"


def render(fmt, st, t=None):
    if fmt == "phylip":
        out = ["%d %d" % (st["ntax"], st["nchar"])]
        for ln in st["lines"]:
            out.append("".join(_item_text(x) for x in ln))
        return "\n".join(out) + "\n"
    if fmt == "fasta":
        return "\n".join("".join(ln) for ln in st["lines"]) + "\n"
    if fmt == "nexus":
        cont = st["datatype"] == "CONTINUOUS"
        fm = ["DATATYPE=%s" % st["datatype"]]
        if not cont:
            fm.append("GAP=%s MISSING=%s MATCHCHAR=%s" % (st["gap"], st["missing"], st["matchchar"]))
        if st["datatype"] == "STANDARD":
            fm.append('SYMBOLS="%s"' % "".join(s for s in st["symbols"] if s != st["gap"]))
        if st["interleave"]:
            fm.append("INTERLEAVE")
        out = ["#NEXUS", "", "BEGIN DATA;", "    DIMENSIONS NTAX=%d NCHAR=%d;" % (st["ntax"], st["nchar"]),
               "    FORMAT %s;" % " ".join(fm), "    MATRIX"]
        for r in st["rows"]:
            cells = " ".join(_item_text(c) for c in r["cells"]) if cont else "".join(r["cells"])
            out.append("        %s    %s" % (nexus_quote(r["label"]), cells))
        out += ["    ;", "END;", ""]
        return "\n".join(out)
    if fmt == "nexml":
        cont = st["type"] == "Continuous"
        o = ['<?xml version="1.0" encoding="ISO-8859-1"?>',
             '<nex:nexml version="0.9" xmlns="http://www.nexml.org/2009" xmlns:nex="http://www.nexml.org/2009" '
             'xmlns:xsi="http://www.w3.org/2001/XMLSchema-instance" xmlns:xsd="http://www.w3.org/2001/XMLSchema#">',
             '  <otus id="tax1">']
        for i, r in enumerate(st["rows"]):
            o.append('    <otu id="t%d" label=%s />' % (i + 1, quoteattr(lab(r["label"]))))
        o.append("  </otus>")
        o.append('  <characters id="m1" otus="tax1" xsi:type="nex:%s%s">' % (st["type"], "Seqs" if st["seqs"] else "Cells"))
        o.append("    <format>")
        if not cont:
            o.append('      <states id="sa1">')
            fund = [s for s in st["states"] if not _is_set_symbol(st["type"], s["sym"])]
            for s in fund:
                o.append('        <state id="%s" symbol="%s" />' % (s["id"], s["sym"]))
            for s in st["states"]:
                if _is_set_symbol(st["type"], s["sym"]):
                    o.append('        <uncertain_state_set id="%s" symbol="%s">' % (s["id"], s["sym"]))
                    for q in _members(st["type"], s["sym"], fund):
                        o.append('          <member state="%s" />' % q["id"])
                    o.append("        </uncertain_state_set>")
            o.append("      </states>")
        for c in st["chars"]:
            o.append('      <char id="%s"%s />' % (c, "" if cont else ' states="sa1"'))
        o.append("    </format>")
        o.append("    <matrix>")
        for i, r in enumerate(st["rows"]):
            o.append('      <row id="r%d" otu="t%d">' % (i + 1, i + 1))
            if st["seqs"]:
                sep = " " if st["type"] in ("Continuous", "Standard") else ""
                o.append("        <seq>%s</seq>" % sep.join(_item_text(c["state"]) if cont else c["state"] for c in r["cells"]))
            else:
                for c in r["cells"]:
                    o.append('        <cell char="%s" state="%s" />' % (c["char"], _item_text(c["state"]) if cont else c["state"]))
            o.append("      </row>")
        o += ["    </matrix>", "  </characters>", "</nex:nexml>", ""]
        return "\n".join(o)
    raise ValueError(fmt)


_MEMBERS = {"N": "ACGT", "R": "AG", "Y": "CT", "M": "AC", "W": "AT", "S": "CG", "K": "GT", "V": "ACG", "H": "ACT", "D": "AGT",
            "B": "CGT"}


def _is_set_symbol(xtype, sym):
    if sym == "?":
        return True
    if xtype in ("Dna", "Rna"):
        return sym in AMB["dna"]
    if xtype == "Protein":
        return sym in "BZX"
    return False


def _members(xtype, sym, fund):
    """member states for an <uncertain_state_set> of a source document (all fundamental states for '?';
    the documented member lists for IUPAC codes; readers of fixed alphabets only use the symbol)"""
    if sym == "?" or xtype == "Protein":
        want = None if sym in "?X" else {"B": "DN", "Z": "EQ"}[sym]
    else:
        want = _MEMBERS.get(sym, "")
        if xtype == "Rna":
            want = want.replace("T", "U")
    return [q for q in fund if want is None or q["sym"] in want]


# ----------------------------------------------------------------------------- text -> stream (what was written)
def _tokenize_values(s):
    """rest of a line of continuous values: whitespace kept as " " items, numeric literals -> atoms"""
    out = []
    for part in re.split(r"([ \t]+)", s):
        if part == "":
            continue
        if part[0] in " \t":
            out.extend(list(part))
        elif _is_float(part):
            out.append(ratstr(float(part)))
        else:
            out.extend(list(part))
    return out


def project_phylip(text, t, strict):
    lines = text.split("\n")
    m = re.match(r"\s*(\d+)\s+(\d+)\s*$", lines[0])
    if not m:
        return None
    out = []
    for ln in lines[1:]:
        ln = ln.rstrip("\r")
        if t != "continuous":
            out.append(list(ln))
        elif strict:
            out.append(list(ln[:10]) + _tokenize_values(ln[10:]))
        else:
            mm = re.match(r"^(\S*)(.*)$", ln)
            out.append(list(mm.group(1)) + _tokenize_values(mm.group(2)))
    while out and out[-1] == []:
        out.pop()
    return {"ntax": int(m.group(1)), "nchar": int(m.group(2)), "lines": out}


def project_fasta(text):
    lines = [list(ln.rstrip("\r")) for ln in text.split("\n")]
    while lines and lines[-1] == []:
        lines.pop()
    return {"lines": lines}


def nexus_tokens(text):
    """tokens of a NEXUS text: (kind, value) with kind in {"w" word, "q" quoted, "p" punctuation, "nl"};
    comments are dropped"""
    out = []
    i, n = 0, len(text)
    while i < n:
        c = text[i]
        if c == "[":
            depth = 1
            i += 1
            while i < n and depth:
                if text[i] == "[":
                    depth += 1
                elif text[i] == "]":
                    depth -= 1
                i += 1
        elif c == "\n":
            out.append(("nl", "\n"))
            i += 1
        elif c in " \t\r":
            i += 1
        elif c == "'":
            i += 1
            buf = []
            while i < n:
                if text[i] == "'":
                    if i + 1 < n and text[i + 1] == "'":
                        buf.append("'")
                        i += 2
                        continue
                    i += 1
                    break
                buf.append(text[i])
                i += 1
            out.append(("q", "".join(buf)))
        elif c in ";=,":
            out.append(("p", c))
            i += 1
        else:
            j = i
            while j < n and text[j] not in " \t\r\n;=,'[":
                j += 1
            out.append(("w", text[i:j]))
            i = j
    return out


def _tok_label(kind, val):
    return chars(val if kind == "q" else val.replace("_", " "))


def nexus_statements(text):
    """[(block_name, [statement tokens ...])]: statements of each block, split at ';' (newline tokens kept)"""
    toks = nexus_tokens(text)
    blocks = []
    cur = None
    stmt = []
    for k, v in toks:
        if k == "w" and v.upper() == "#NEXUS" and not stmt and not blocks:
            continue
        if k == "p" and v == ";":
            words = [x for x in stmt if x[0] != "nl"]
            if words and words[0][0] == "w" and words[0][1].upper() == "BEGIN":
                cur = (words[1][1].upper() if len(words) > 1 else "", [])
                blocks.append(cur)
            elif words and words[0][0] == "w" and words[0][1].upper() in ("END", "ENDBLOCK"):
                cur = None
            elif cur is not None:
                cur[1].append(stmt)
            stmt = []
        else:
            stmt.append((k, v))
    return blocks


def project_nexus_matrix(text, index=0):
    """the index-th CHARACTERS/DATA block as the abstract NEXUS stream"""
    blocks = [b for b in nexus_statements(text) if b[0] in ("CHARACTERS", "DATA")]
    if index >= len(blocks):
        return None
    st = {"ntax": 0, "nchar": 0, "datatype": "STANDARD", "gap": "-", "missing": "?", "matchchar": ".", "symbols": [],
          "interleave": False, "rows": []}
    for stmt in blocks[index][1]:
        words = [x for x in stmt if x[0] != "nl"]
        if not words:
            continue
        head = words[0][1].upper() if words[0][0] == "w" else ""
        if head == "DIMENSIONS":
            for i, (k, v) in enumerate(words):
                if k == "w" and v.upper() in ("NTAX", "NCHAR") and i + 2 < len(words) + 0 and words[i + 1] == ("p", "="):
                    st[v.lower()] = int(words[i + 2][1])
        elif head == "FORMAT":
            i = 1
            while i < len(words):
                k, v = words[i]
                u = v.upper() if k == "w" else ""
                nxt = words[i + 2][1] if i + 2 < len(words) and words[i + 1] == ("p", "=") else None
                if u == "DATATYPE" and nxt is not None:
                    st["datatype"] = nxt.upper()
                    i += 3
                elif u in ("GAP", "MISSING", "MATCHCHAR") and nxt is not None:
                    st[u.lower()] = nxt
                    i += 3
                elif u == "SYMBOLS" and nxt is not None:
                    # SYMBOLS="..." : the word token carries the quotes
                    j = i + 2
                    buf = ""
                    while j < len(words):
                        buf += words[j][1]
                        j += 1
                        if buf.count('"') >= 2:
                            break
                    st["symbols"] = [c for c in buf.replace('"', "") if not c.isspace()]
                    i = j
                elif u == "INTERLEAVE":
                    st["interleave"] = True
                    if nxt is not None:
                        st["interleave"] = not nxt.upper().startswith("N")
                        i += 3
                    else:
                        i += 1
                else:
                    i += 1
        elif head == "MATRIX":
            cont = st["datatype"] == "CONTINUOUS"
            line = []
            rows = []
            body = list(stmt)
            while body and body[0][0] == "nl":
                body.pop(0)
            for tok in body[1:] + [("nl", "\n")]:
                if tok[0] == "nl":
                    if line:
                        rows.append(line)
                    line = []
                else:
                    line.append(tok)
            for line in rows:
                label = _tok_label(*line[0])
                cells = []
                for k, v in line[1:]:
                    if cont:
                        cells.append(ratstr(float(v)) if _is_float(v) else v)
                    else:
                        cells.extend(list(v))
                st["rows"].append({"label": label, "cells": cells})
    return st


def project_nexus_blocks(text):
    """data-set level: [{"kind", "title", "link", "labels"}] for TAXA / CHARACTERS / DATA / TREES blocks"""
    out = []
    for name, stmts in nexus_statements(text):
        if name not in ("TAXA", "CHARACTERS", "DATA", "TREES", "SETS"):
            continue
        b = {"kind": "CHARACTERS" if name == "DATA" else name, "title": [], "link": [], "labels": [], "neg": False}
        for stmt in stmts:
            words = [x for x in stmt if x[0] != "nl"]
            if not words or words[0][0] != "w":
                continue
            head = words[0][1].upper()
            if head == "TITLE" and len(words) > 1:
                b["title"] = _tok_label(*words[1])
            elif head == "LINK":
                for i, (k, v) in enumerate(words):
                    if k == "w" and v.upper() == ("CHARACTERS" if name == "SETS" else "TAXA") and i + 2 < len(words) and words[i + 1] == ("p", "="):
                        b["link"] = _tok_label(*words[i + 2])
            elif head == "TAXLABELS":
                b["labels"] = [_tok_label(*w) for w in words[1:]]
        out.append(b)
    return out


_NX = "{http://www.nexml.org/2009}"
_XSI = "{http://www.w3.org/2001/XMLSchema-instance}type"


def _parse_xml(text):
    import xml.etree.ElementTree as ET
    try:
        return ET.fromstring(text.encode("utf-8") if isinstance(text, str) else text)
    except Exception:
        # the documents declare ISO-8859-1
        try:
            return ET.fromstring(text.encode("latin-1"))
        except Exception:
            return None


def project_nexml_matrix(text, index=0):
    root = _parse_xml(text)
    if root is None:
        return None
    otu_label = {}
    for otus in root.iter(_NX + "otus"):
        for otu in otus.iter(_NX + "otu"):
            otu_label[(otus.get("id"), otu.get("id"))] = otu.get("label") or ""
    chs = list(root.iter(_NX + "characters"))
    if index >= len(chs):
        return None
    ch = chs[index]
    xt = (ch.get(_XSI) or "").split(":")[-1]
    seqs = xt.endswith("Seqs")
    xtype = xt[:-4] if seqs else (xt[:-5] if xt.endswith("Cells") else xt)
    cont = xtype == "Continuous"
    st = {"type": xtype, "seqs": seqs, "states": [], "chars": [], "rows": []}
    fm = ch.find(_NX + "format")
    if fm is not None:
        for states in fm.findall(_NX + "states"):
            for el in states:
                if el.tag in (_NX + "state", _NX + "uncertain_state_set", _NX + "polymorphic_state_set"):
                    st["states"].append({"id": el.get("id") or "", "sym": el.get("symbol") or ""})
        for c in fm.findall(_NX + "char"):
            st["chars"].append(c.get("id") or "")
    mx = ch.find(_NX + "matrix")
    for row in (mx.findall(_NX + "row") if mx is not None else []):
        label = otu_label.get((ch.get("otus"), row.get("otu")), "")
        cells = []
        if seqs:
            seq = row.find(_NX + "seq")
            txt = seq.text or "" if seq is not None else ""
            if cont:
                cells = [{"char": "", "state": ratstr(float(x)) if _is_float(x) else x} for x in txt.split()]
            else:
                cells = [{"char": "", "state": c} for c in txt if not c.isspace()]
        else:
            for cell in row.findall(_NX + "cell"):
                s = cell.get("state") or ""
                cells.append({"char": cell.get("char") or "", "state": (ratstr(float(s)) if _is_float(s) else s) if cont else s})
        st["rows"].append({"label": chars(label), "cells": cells})
    return st


def project_nexml_blocks(text):
    root = _parse_xml(text)
    if root is None:
        return None
    out = []
    for el in root:
        if el.tag == _NX + "otus":
            out.append({"kind": "TAXA", "title": chars(el.get("id") or ""), "link": [], "neg": False,
                        "labels": [chars(o.get("label") or "") for o in el.findall(_NX + "otu")]})
        elif el.tag == _NX + "characters":
            out.append({"kind": "CHARACTERS", "title": chars(el.get("id") or ""), "link": chars(el.get("otus") or ""), "labels": [], "neg": False})
        elif el.tag == _NX + "trees":
            out.append({"kind": "TREES", "title": chars(el.get("id") or ""), "link": chars(el.get("otus") or ""), "labels": [], "neg": False})
    return out


def project_stream(fmt, text, t, strict=False, index=0):
    try:
        if fmt == "phylip":
            return project_phylip(text, t, strict)
        if fmt == "fasta":
            return project_fasta(text)
        if fmt == "nexus":
            return project_nexus_matrix(text, index)
        if fmt == "nexml":
            return project_nexml_matrix(text, index)
    except Exception:
        return None
    return None


NO_STREAM = {"none": True}


# ----------------------------------------------------------------------------- writer / reader keyword arguments
def writer_kwargs(fmt, lay):
    kw = {}
    if fmt == "phylip" and lay.get("strict"):
        kw["strict"] = True
    if fmt == "nexml" and lay.get("seqs"):
        kw["markup_as_sequences"] = True
    if fmt == "nexus" and lay.get("simple"):
        kw["simple"] = True
    if fmt == "fasta" and lay.get("nowrap"):
        kw["wrap"] = False
    return kw


def reader_kwargs(fmt, lay):
    kw = {}
    if fmt == "phylip":
        if lay.get("strict"):
            kw["strict"] = True
        if lay.get("page", 0) > 0:
            kw["interleaved"] = True
        if lay.get("multispace"):
            kw["multispace_delimiter"] = True
    return kw


def ro_record(lay):
    return {"strict": bool(lay.get("strict")), "interleaved": lay.get("page", 0) > 0, "multispace": bool(lay.get("multispace"))}


class KeepOpen(io.StringIO):
    """stdout stand-in for dendropy_format.convert, which closes its destination"""

    def close(self):
        pass
