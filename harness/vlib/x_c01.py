"""C01 helpers: input construction only (no expected values are computed here).

Nested form as in vlib/build.py: [label, taxon_index_or_None, length, [children]].
All functions are purely structural list manipulations used to derive *other
inputs* from an input (the same tree drawn differently, a neighbouring tree);
whether two inputs are the same topology is never decided here - TLC decides.
"""
import copy


def copy_nested(nd):
    return copy.deepcopy(nd)


def leaves_of(nd, out=None):
    out = [] if out is None else out
    if not nd[3]:
        out.append(nd)
    for c in nd[3]:
        leaves_of(c, out)
    return out


def internals_of(nd, out=None, with_root=True):
    out = [] if out is None else out
    if nd[3] and with_root:
        out.append(nd)
    for c in nd[3]:
        internals_of(c, out, True)
    return out


def shuffle_children(nd, rng):
    rng.shuffle(nd[3])
    for c in nd[3]:
        shuffle_children(c, rng)
    return nd


def add_unifurcations(nd, rng, p):
    for i, c in enumerate(nd[3]):
        add_unifurcations(c, rng, p)
        if rng.random() < p:
            nd[3][i] = [None, None, None, [c]]
    return nd


def wrap_root(nd):
    """a unifurcation above the root"""
    return [None, None, None, [nd]]


def reroot(nd, rng):
    """the same undirected tree hung from another internal node (the old root stays as a node,
    possibly of degree two)"""
    nodes, adj = [], {}
    while len(nd[3]) == 1 and nd[1] is None:      # a unifurcating root would become a taxon-less leaf
        nd = nd[3][0]

    def walk(x, parent):
        k = len(nodes)
        nodes.append(x)
        adj[k] = []
        if parent is not None:
            adj[k].append(parent)
            adj[parent].append(k)
        for c in x[3]:
            walk(c, k)
    walk(nd, None)
    cand = [k for k in range(len(nodes)) if nodes[k][3] and nodes[k][1] is None]
    if not cand:
        return copy_nested(nd)
    r = rng.choice(cand)

    def mk(k, frm):
        x = nodes[k]
        return [x[0], x[1], None, [mk(j, k) for j in adj[k] if j != frm]]
    return mk(r, None)


def nni(nd, rng):
    """swap a child of an internal non-root node with one of that node's siblings"""
    cands = []

    def walk(u):
        for v in u[3]:
            if v[3] and len(u[3]) >= 2:
                cands.append((u, v))
            walk(v)
    walk(nd)
    if not cands:
        return nd
    u, v = rng.choice(cands)
    sibs = [s for s in u[3] if s is not v]
    s = rng.choice(sibs)
    c = rng.choice(v[3])
    i, j = u[3].index(s), v[3].index(c)
    u[3][i], v[3][j] = c, s
    return nd


def swap_leaves(nd, rng):
    lv = leaves_of(nd)
    if len(lv) >= 2:
        a, b = rng.sample(lv, 2)
        a[1], b[1] = b[1], a[1]
    return nd


def count_nodes(nd):
    return 1 + sum(count_nodes(c) for c in nd[3])
