"""C02 helpers: building instances as real dendropy objects, the real
write/read round trip, and the projection of source and re-read tree lists to
the event format of spec/Trace_TreeRoundTrip.tla.

No oracle here: nothing in this file compares a source with a result.  Labels
are projected to lists of character codes, edge lengths to the hex rendering
of their float value (a purely syntactic, injective rendering: two lengths are
numerically equal iff their renderings are equal), taxa to positions in the
namespace.
"""
import io
import os

from . import proj, build, budget

# ------------------------------------------------------------------ character classes -> concrete characters
REP = {"a": "a", "A": "A", "sp": " ", "tab": "\t", "us": "_", "sq": "'", "dq": '"', "lp": "(", "rp": ")", "lb": "[",
       "rb": "]", "lc": "{", "rc": "}", "cm": ",", "sc": ";", "co": ":", "eq": "=", "bs": "\\", "sl": "/", "st": "*",
       "mi": "-", "dot": ".", "bt": "`", "lt": "<", "gt": ">", "amp": "&", "na": "é", "ot": "%"}
for _d in "0123456789":
    REP[_d] = _d
# classes with several members: variants chosen by an index (deterministic)
VARIANTS = {"a": "abxyz", "mi": "-+", "na": "éßΩж中ñÅ", "ot": "%!#$?@^|~"}
NONASCII_SAMPLE = "éßΩж中ñÅü"
LENLIT = {"": None, "n0": 0, "n1": 1, "n2": 2.5e-07, "n3": 3.25e+20}
WEIGHTLIT = {"": None, "w2": 0.25}


def concrete_label(classes, variant=0):
    out = []
    for k, c in enumerate(classes):
        if c.startswith("K_"):              # keyword class: the word itself
            out.append(c[2:])
            continue
        v = VARIANTS.get(c)
        out.append(v[(variant + k) % len(v)] if v and variant else REP[c])
    return "".join(out)


def casefold_key(s):
    return (s.lower(), s.upper(), s.casefold())


def distinct_up_to_case(labels):
    seen = set()
    for s in labels:
        ks = casefold_key(s)
        if any(k in seen for k in ks):
            return False
        seen.update(ks)
    return True


# ------------------------------------------------------------------ model instance (TLC dump) -> driver instance
def nested_from_graph(g, lab_fn, len_fn):
    """g: graph-form dict as TLC prints it (1-based sequences) -> nested form of build.py"""
    def mk(x):
        kids = [mk(c) for c in g["kids"][x - 1]]
        tx = g["tx"][x - 1]
        return [lab_fn(g["lab"][x - 1]), (tx - 1) if tx else None, len_fn(g["len"][x - 1]), kids]
    return mk(g["seed"])


def inst_from_model(m, variant=0):
    lab = lambda cl: (concrete_label(cl, variant) if cl else None)
    trees = []
    for t in m["trees"]:
        g = t["g"]
        trees.append({"nested": nested_from_graph(g, lab, lambda s: LENLIT[s]), "rooted": g["rooted"],
                      "weight": WEIGHTLIT[t["w"]]})
    return {"ns": [concrete_label(cl, variant) for cl in m["ns"]], "trees": trees}


# ------------------------------------------------------------------ projection
def codes(s):
    if s is None:
        return []
    if not isinstance(s, str):
        s = repr(s)
    return [ord(c) for c in s]


def hexlen(v):
    if v is None:
        return ""
    try:
        return float(v).hex()
    except Exception:
        return "?" + repr(v)[:40]


def project_side(trees, ns):
    """trees: iterable of Tree; ns: their TaxonNamespace (or None)."""
    taxa = list(ns) if ns is not None else []
    pos = dict((id(t), i + 1) for i, t in enumerate(taxa))
    out = {"ns": [codes(t.label) for t in taxa], "trees": []}
    for tree in trees:
        ids = {}
        g = proj.tree_graph(tree, node_ids=ids, labels=False)
        order = ids.pop("__order__")
        g["lab"] = [codes(getattr(nd, "_label", None)) for nd in order]
        g["len"] = [hexlen(getattr(getattr(nd, "_edge", None), "length", None)) for nd in order]
        tx = []
        for nd in order:
            t = getattr(nd, "taxon", None)
            tx.append(0 if t is None else pos.get(id(t), len(taxa) + 1))
        g["tx"] = tx
        out["trees"].append(g)
    return out


# ------------------------------------------------------------------ building and the round trip
def nsops_from_acc(acc):
    """Accession numbers (model, 1-based, one per namespace position; strictly increasing or strictly decreasing)
    -> a namespace history that produces them: taxa are added in accession order, placeholders fill the unused
    numbers below the largest one and are removed again *before* the taxon with the largest number is added
    (a removal followed by an addition); a decreasing sequence is a reversed namespace."""
    n = len(acc)
    if list(acc) == list(range(1, n + 1)):
        return None
    desc = all(acc[i] > acc[i + 1] for i in range(n - 1))
    pos_of = dict((a, i) for i, a in enumerate(acc))
    top = max(acc)
    ops = []
    for a in range(1, top):
        ops.append(["add", pos_of[a]] if a in pos_of else ["tmp"])
    ops.append(["rm"])
    ops.append(["add", pos_of[top]])
    if desc:
        ops.append(["reverse"])
    return ops


def build_namespace(dendropy, labels, nsops=None):
    """-> (namespace, taxa) with taxa[i] the Taxon labelled labels[i].  nsops is the history of the namespace:
    ["add", i] add taxon i, ["tmp"] add a placeholder taxon, ["rm"] remove all placeholders, ["reverse"], ["sort"];
    taxa not mentioned are added at the end in order."""
    ns = dendropy.TaxonNamespace()
    taxa = [None] * len(labels)
    tmps = []
    for op in (nsops or []):
        if op[0] == "add" and taxa[op[1]] is None:
            taxa[op[1]] = ns.new_taxon(labels[op[1]])
        elif op[0] == "tmp":
            tmps.append(ns.new_taxon("zzTmp%d" % len(tmps)))
        elif op[0] == "rm":
            for t in tmps:
                if t in ns:
                    ns.remove_taxon(t)
            tmps = []
        elif op[0] in ("reverse", "sort"):
            for i in range(len(labels)):
                if taxa[i] is None:
                    taxa[i] = ns.new_taxon(labels[i])
            for t in tmps:
                ns.remove_taxon(t)
            tmps = []
            getattr(ns, op[0])()
    for i in range(len(labels)):
        if taxa[i] is None:
            taxa[i] = ns.new_taxon(labels[i])
    for t in tmps:
        ns.remove_taxon(t)
    return ns, taxa


def build_instance(dendropy, inst):
    ns, taxa = build_namespace(dendropy, list(inst["ns"]), inst.get("nsops"))
    tl = dendropy.TreeList(taxon_namespace=ns)
    for t in inst["trees"]:
        r = t["rooted"]
        tree = build.build_tree(dendropy, t["nested"], ns, taxa, rooted=(None if r in (-1, None) else bool(r)))
        if t.get("weight") is not None:
            tree.weight = t["weight"]
        tl.append(tree)
    return tl


def writer_kwargs(schema, o, pad=None):
    if schema == "nexml":
        return {}
    kw = {"unquoted_underscores": o["uu"], "preserve_spaces": o["ps"], "suppress_rooting": o["suprooting"],
          "store_tree_weights": o["weights"]}
    if schema == "nexus" and o["translate"]:
        kw["translate_tree_taxa"] = True
    if pad:
        kw["suppress_item_comments"] = False          # tree / node comments are written (default of NEXUS, option of Newick)
        if pad.get("file") is not None and schema == "nexus":
            kw["file_comments"] = ["x" * pad["file"]]
    return kw


def apply_pad(tl, pad):
    """Padding with the writers' own means: a comment of n characters on the first tree (written in front
    of its statement), a comment on every labelled internal node (label directly followed by '[').  Comments
    are not part of the projection."""
    if not pad:
        return
    if pad.get("tree") is not None and len(tl):
        tl[0].comments.append("x" * pad["tree"])
    if pad.get("node_comments"):
        for t in tl:
            st = [t.seed_node]
            while st:
                nd = st.pop()
                st.extend(nd._child_nodes)
                if nd._child_nodes and nd.label:
                    nd.comments.append("c")


def reader_kwargs(schema, o):
    if schema == "nexml":
        return {}
    kw = {"preserve_underscores": o["pu"], "store_tree_weights": o["weights"]}
    if o["rrooting"]:
        kw["rooting"] = o["rrooting"]
    if o["inttaxa"]:
        kw["suppress_internal_node_taxa"] = False
    return kw


O0 = {"uu": False, "ps": False, "pu": False, "translate": False, "suprooting": False, "rrooting": "", "weights": False,
      "inttaxa": False}


def opts(**kw):
    o = dict(O0)
    o.update(kw)
    return o


class _CpuAlarm(BaseException):
    pass


def _guarded(reader, text):
    """Run a reader that might not terminate (the NEXUS reader loops on some truncated inputs).  First
    untraced under a CPU-time alarm; only if that fires, decide deterministically with the step budget."""
    import signal

    def on_alarm(signum, frame):
        raise _CpuAlarm()
    old = signal.signal(signal.SIGVTALRM, on_alarm)
    signal.setitimer(signal.ITIMER_VIRTUAL, 8.0)
    try:
        try:
            return ("ok", reader())
        except _CpuAlarm:
            pass
        except RecursionError as ex:
            return ("exc", ex)
        except Exception as ex:
            return ("exc", ex)
        finally:
            signal.setitimer(signal.ITIMER_VIRTUAL, 0)
    finally:
        signal.signal(signal.SIGVTALRM, old)
    kind, val, _ = budget.run_with_budget(reader, limit=400000 + 3000 * len(text))
    return (kind, val)


def round_trip(dendropy, src, schema, o, api="treelist", route="string", tmpdir=None, pad=None):
    """src: Tree or TreeList -> (text, raised, out_trees, out_ns)"""
    wkw, rkw = writer_kwargs(schema, o, pad), reader_kwargs(schema, o)
    cls = dendropy.Tree if api == "tree" else dendropy.TreeList
    path = None
    try:
        if route == "file":
            path = os.path.join(tmpdir or "/tmp", "c02_%d_%d.%s" % (os.getpid(), id(src) % 100000, schema))
            src.write(path=path, schema=schema, **wkw)
            with open(path) as f:
                text = f.read()
            reader = lambda: cls.get(path=path, schema=schema, **rkw)
        else:
            text = src.as_string(schema=schema, **wkw)
            reader = lambda: cls.get(data=text, schema=schema, **rkw)
        kind, val = _guarded(reader, text)
    finally:
        if path is not None and os.path.exists(path):
            os.remove(path)
    if kind == "hang":
        return text, "HANG", [], None
    if kind == "exc":
        return text, type(val).__name__, [], None
    if api == "tree":
        return text, "", [val], val.taxon_namespace
    return text, "", list(val), val.taxon_namespace


def event_for(dendropy, tl, schema, o, api="treelist", route="string", tmpdir=None, text_cap=500, pad=None):
    apply_pad(tl, pad)
    src_obj = tl[0] if api == "tree" else tl
    src_trees = [tl[0]] if api == "tree" else list(tl)
    src = project_side(src_trees, tl.taxon_namespace)          # projected before anything is written
    try:
        text, raised, out_trees, out_ns = round_trip(dendropy, src_obj, schema, o, api, route, tmpdir, pad)
    except Exception as ex:                      # the *writer* raised: also a failed round trip
        text, raised, out_trees, out_ns = "", "write:" + type(ex).__name__, [], None
    ev = {"action": "RoundTrip", "schema": schema, "o": dict(o), "api": api, "route": route, "raised": raised,
          "src": src, "out": project_side(out_trees, out_ns), "text": text[:text_cap]}
    if pad:
        ev["pad"] = pad.get("tree") if pad.get("tree") is not None else pad.get("file", 0)
        ev["textlen"] = len(text)
        ev["text"] = text[-text_cap:]               # the padded head is not informative
    return ev


def token_events(dendropy, labels, combos):
    """Real escape + tokenizer on each label: conformance of spec/NexusToken.tla (drift only)."""
    from dendropy.dataio import nexusprocessing, newickwriter
    evs = []
    for lab in labels:
        for (uu, ps, pu) in combos:
            try:
                nd = dendropy.Node(label=lab)
                nd.add_child(dendropy.Node())
                w = newickwriter.NewickWriter(unquoted_underscores=uu, preserve_spaces=ps)
                esc_tree = w._render_node_tag(nd)
                esc_def = nexusprocessing.escape_nexus_token(lab, preserve_spaces=ps, quote_underscores=not uu)
            except Exception:
                continue
            text = "(" + esc_tree + ":"
            toks, raised = [], ""
            try:
                tk = nexusprocessing.NexusTokenizer(io.StringIO(text), preserve_unquoted_underscores=pu)
                for t in tk:
                    toks.append({"s": codes(t), "q": bool(tk.is_token_quoted)})
                    if len(toks) > 200:
                        break
            except Exception as ex:
                raised = type(ex).__name__
            evs.append({"action": "Token", "label": codes(lab), "uu": uu, "ps": ps, "pu": pu, "esc_tree": codes(esc_tree),
                        "esc_default": codes(esc_def), "text": codes(text), "tokens": toks, "tokraised": raised})
    return evs
