import importlib
import os
import sys

sys.path.insert(0, os.path.dirname(os.path.abspath(__file__)))
from vlib import core


def main():
    if len(sys.argv) < 2:
        print("usage: check <Cxx> [--tier quick|thorough] [--replay FILE]")
        return 2
    prop = sys.argv[1]
    core.bind_repo()
    try:
        mod = importlib.import_module("props." + prop)
    except ImportError as ex:
        print("MACHINERY-FAILURE property=%s: no driver (%s)" % (prop, ex))
        return 2
    return core.main(mod, sys.argv[1:])


if __name__ == "__main__":
    sys.exit(main())
