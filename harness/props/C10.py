"""C10 - taxon namespaces: stable one-to-one taxon/bit map, exact label lookups.

spec/TaxonNamespace.tla (operators), MC_TaxonNamespace (bounded model, TLC),
Trace_TaxonNamespace (TLC judges every logged real call).  Binding:
 M2  every transition of the dumped model graph is replayed on a real
     TaxonNamespace (shortest model path to the source state, then the edge);
 M3  all those executions plus seeded random histories on larger namespaces
     are logged and judged by TLC.
"""
import copy
import os
import random
import re

from vlib import core, tlaval

ID = "C10"
LABELS_MODEL = ["a", "A", "b"]
LABELS_RANDOM = ["a", "A", "b", "B", "ab", "Ab", "aB", "AB", "c", "C", "z", "Z", "q1", "q2"]
CSARG = {-1: None, 0: False, 1: True}


def bits(n):
    out, i = [], 0
    if not isinstance(n, int) or n < 0:
        return [-1]
    while n:
        if n & 1:
            out.append(i)
        n >>= 1
        i += 1
    return out


class World(object):
    """Taxon object identities: small ints in order of first sight."""

    def __init__(self, dendropy, cs):
        self.d = dendropy
        self.taxa = []          # id-1 -> Taxon
        self.ids = {}           # id(obj) -> id
        self.ns = dendropy.TaxonNamespace(is_case_sensitive=cs)

    def tid(self, t):
        k = self.ids.get(id(t))
        if k is None:
            self.taxa.append(t)
            k = len(self.taxa)
            self.ids[id(t)] = k
        return k

    def fid(self, t, foreign):
        """id of a taxon of a COPY: known world objects keep their id, new objects (deep copies) get ids
        100001.. local to this projection, so the world's id space (= the model's) is not disturbed"""
        k = self.ids.get(id(t))
        if k is not None:
            return k
        k = foreign.get(id(t))
        if k is None:
            k = 100001 + len(foreign)
            foreign[id(t)] = k
        return k

    def label_of(self, t):
        return t.label if isinstance(t.label, str) else "<%r>" % (t.label,)

    def state(self, ns=None, foreign=None):
        ns = ns or self.ns
        if foreign is None:
            members = [self.tid(t) for t in list(ns._taxa)]
        else:
            members = [self.fid(t, foreign) for t in list(ns._taxa)]
        idx, bm = [], []
        for t in list(ns._taxa):
            try:
                idx.append(int(ns.accession_index(t)))
            except Exception:
                idx.append(-1)
            try:
                bm.append(bits(ns.taxon_bitmask(t)))
            except Exception:
                bm.append([-1])
        return {"members": members, "idx": idx, "bm": bm, "next": int(ns._current_accession_count),
                "labels": [self.label_of(t) for t in self.taxa],
                "cs": bool(ns.is_case_sensitive), "mut": bool(ns.is_mutable)}


def _call(fn):
    try:
        return "", fn()
    except Exception as ex:   # the outcome is logged and judged, never swallowed
        return type(ex).__name__, None


def _ids(w, r):
    if r is None:
        return []
    if isinstance(r, (list, tuple)):
        return [w.tid(t) for t in r]
    return [w.tid(r)]


def do_op(w, action, a):
    """Execute one model action on the real namespace; returns the logged event(s)."""
    ns = w.ns
    pre = w.state()
    res = []
    act = action
    args = dict(a)
    if action == "CreateTaxon":
        raised, r = _call(lambda: w.d.Taxon(label=a["l"]))
        if r is not None:
            w.tid(r)
    elif action == "AddTaxon":
        raised, r = _call(lambda: ns.add_taxon(w.taxa[a["t"] - 1]))
    elif action == "AddTaxa":
        raised, r = _call(lambda: ns.add_taxa([w.taxa[t - 1] for t in a["ts"]]))
    elif action == "NewTaxon":
        raised, r = _call(lambda: ns.new_taxon(a["l"]))
        res = _ids(w, r)
    elif action == "NewTaxa":
        raised, r = _call(lambda: ns.new_taxa(list(a["ls"])))
        res = _ids(w, r)
    elif action == "RequireTaxon":
        raised, r = _call(lambda: ns.require_taxon(a["l"], is_case_sensitive=CSARG[a["c"]]))
        res = _ids(w, r)
    elif action == "RemoveTaxon":
        raised, r = _call(lambda: ns.remove_taxon(w.taxa[a["t"] - 1]))
    elif action == "RemoveLabel":
        f = ns.discard_taxon_label if a["discard"] else ns.remove_taxon_label
        raised, r = _call(lambda: f(a["l"], is_case_sensitive=CSARG[a["c"]], first_match_only=a["first"]))
    elif action == "Clear":
        raised, r = _call(ns.clear)
    elif action == "Reverse":
        raised, r = _call(ns.reverse)
    elif action == "Sort":
        if "perm" in a:
            old = list(ns._taxa)
            want = [old[i - 1] for i in a["perm"]]
            rank = dict((id(t), i) for i, t in enumerate(want))
            raised, r = _call(lambda: ns.sort(key=lambda t: rank[id(t)]))
        else:
            raised, r = _call(lambda: ns.sort(reverse=a.get("reverse", False)))
    elif action == "Relabel":
        t = w.taxa[a["t"] - 1]
        raised, r = _call(lambda: setattr(t, "label", a["l"]))
    elif action == "SetCase":
        raised, r = _call(lambda: setattr(ns, "is_case_sensitive", a["b"]))
    elif action == "SetMutable":
        raised, r = _call(lambda: setattr(ns, "is_mutable", a["b"]))
    else:
        raise core.MachineryError("unknown action " + action)
    post = w.state()
    # taxa created by the call are new identities: the pre-state's label table must not know them
    pre["labels"] = post["labels"][:len(pre["labels"])] if action not in ("Relabel",) else pre["labels"]
    return {"action": act, "args": args, "pre": pre, "post": post, "raised": raised, "res": res}


_NWK_SPLIT = re.compile(r"^\(\((.*)\), \((.*)\)\);$")
_NWK_ALL = re.compile(r"^\((.*)\);$")


def _q(errs, name, fn, default):
    """query call that must not raise: an exception is logged (and judged), never propagated"""
    try:
        return fn()
    except Exception as ex:
        errs.append("%s:%s" % (name, type(ex).__name__))
        return default


def q_mask(w, S):
    ns = w.ns
    st = w.state()
    errs = []
    taxa = [w.taxa[t - 1] for t in S]
    m = _q(errs, "taxa_bitmask", lambda: ns.taxa_bitmask(taxa=taxa), -1)
    back = _ids(w, _q(errs, "bitmask_taxa_list", lambda: ns.bitmask_taxa_list(m), [])) if m >= 0 else []
    s = _q(errs, "bitmask_as_newick_string", lambda: ns.bitmask_as_newick_string(m), "") if m >= 0 else ""
    mm = _NWK_SPLIT.match(s)
    if mm:
        form = "split"
        n1 = [x for x in mm.group(1).split(", ") if x != ""]
        n2 = [x for x in mm.group(2).split(", ") if x != ""]
    else:
        mm = _NWK_ALL.match(s)
        form = "all" if mm else "unparsed"
        n1 = [x for x in (mm.group(1).split(",") if mm else [s]) if x != ""]
        n2 = []
    bs = _q(errs, "bitmask_as_bitstring", lambda: ns.bitmask_as_bitstring(m), "") if m >= 0 else ""
    ones = [i for i, ch in enumerate(reversed(bs)) if ch == "1"]
    allm = _q(errs, "all_taxa_bitmask", lambda: ns.all_taxa_bitmask(), -1)
    return {"action": "QMask", "pre": st, "post": st, "S": list(S), "mask": bits(m), "back": back,
            "nwkform": form, "nwk1": n1, "nwk2": n2, "bitstr_ones": ones, "bitstr_len": len(bs),
            "allmask": bits(allm), "raised": ",".join(errs)}


def q_lookup(w, l, c):
    ns = w.ns
    st = w.state()
    cs = CSARG[c]
    errs = []
    return {"action": "QLookup", "pre": st, "post": st, "l": l, "c": c,
            "findall": _ids(w, _q(errs, "findall", lambda: ns.findall(l, is_case_sensitive=cs), [])),
            "get_taxon": _ids(w, _q(errs, "get_taxon", lambda: ns.get_taxon(l, is_case_sensitive=cs), None)),
            "has": bool(_q(errs, "has_taxon_label", lambda: ns.has_taxon_label(l, is_case_sensitive=cs), False)),
            "get_taxa_all": _ids(w, _q(errs, "get_taxa", lambda: ns.get_taxa([l], is_case_sensitive=cs), [])),
            "get_taxa_first": _ids(w, _q(errs, "get_taxa", lambda: ns.get_taxa([l], is_case_sensitive=cs, first_match_only=True), [])),
            "raised": ",".join(errs)}


def q_copy(w, route):
    ns = w.ns
    st = w.state()
    errs = []
    if route == "constructor":
        c = _q(errs, "constructor", lambda: w.d.TaxonNamespace(ns), None)
    elif route == "copy":
        c = _q(errs, "copy", lambda: copy.copy(ns), None)
    else:
        c = _q(errs, "deepcopy", lambda: copy.deepcopy(ns), None)
    if c is None:
        return {"action": "Copy", "pre": st, "post": st, "route": route, "raised": ",".join(errs),
                "cpy": {"members": [], "idx": [], "bm": [], "next": 0, "labs": []}}
    cs = w.state(c, foreign={})
    cpy = {"members": cs["members"], "idx": cs["idx"], "bm": cs["bm"], "next": cs["next"],
           "labs": [w.label_of(t) for t in c._taxa]}
    post = w.state()
    return {"action": "Copy", "pre": st, "post": post, "route": route, "cpy": cpy, "raised": ""}


def subsets(xs):
    out = [[]]
    for x in xs:
        out += [s + [x] for s in out]
    return out


def sweep(w, rng, labels, full):
    """Queries on the current state: every subset (small namespaces) or a sample."""
    evs = []
    mem = [w.tid(t) for t in w.ns._taxa]
    if full and len(mem) <= 4:
        ss = subsets(mem)
    else:
        ss = [[], list(mem)] + [[t for t in mem if rng.random() < 0.5] for _ in range(3)]
    for S in ss:
        evs.append(q_mask(w, S))
    for l in labels:
        for c in ((-1, 0, 1) if full else (rng.choice((-1, 0, 1)),)):
            evs.append(q_lookup(w, l, c))
    return evs


MODEL_TO_REAL = {"ClearAll": "Clear", "ReverseOrder": "Reverse"}


def model_step(w, name, args):
    """One model action (edge label of the TLC graph) on the real object."""
    if name == "CreateTaxon":
        return [do_op(w, "CreateTaxon", {"l": args[0]})]
    if name == "AddTaxon":
        return [do_op(w, "AddTaxon", {"t": args[0]})]
    if name == "AddTaxa2":
        return [do_op(w, "AddTaxa", {"ts": [args[0], args[1]]})]
    if name == "NewTaxon":
        return [do_op(w, "NewTaxon", {"l": args[0]})]
    if name == "RequireTaxon":
        return [do_op(w, "RequireTaxon", {"l": args[0], "c": args[1]})]
    if name == "RemoveTaxon":
        return [do_op(w, "RemoveTaxon", {"t": args[0]})]
    if name == "RemoveLabel":
        return [do_op(w, "RemoveLabel", {"l": args[0], "c": args[1], "first": args[2], "discard": args[3]})]
    if name == "ClearAll":
        return [do_op(w, "Clear", {})]
    if name == "ReverseOrder":
        return [do_op(w, "Reverse", {})]
    if name == "Reorder":
        return [do_op(w, "Sort", {"perm": list(args[0])})]
    if name == "Relabel":
        return [do_op(w, "Relabel", {"t": args[0], "l": args[1]})]
    if name == "SetCase":
        return [do_op(w, "SetCase", {"b": args[0]})]
    if name == "SetMutable":
        return [do_op(w, "SetMutable", {"b": args[0]})]
    if name == "QueryBitmask":
        return [q_mask(w, [args[0]])]
    if name == "CopyNs":
        return [q_copy(w, r) for r in ("constructor", "copy", "deepcopy")]
    raise core.MachineryError("unknown model action %s" % name)


def run_case(case):
    import dendropy
    rng = random.Random(case.get("seed", 0))
    if case["kind"] == "path":
        w = World(dendropy, case["cs"])
        evs = []
        path = case["path"]
        for k, (name, args) in enumerate(path):
            step_evs = model_step(w, name, args)
            if k == len(path) - 1:
                evs.extend(step_evs)        # the transition under test (its prefix is another case's last edge)
                evs.extend(sweep(w, rng, LABELS_MODEL, True))
            else:
                evs.extend(e for e in step_evs if e["action"] not in ("QMask", "Copy"))
        return evs
    # random history
    w = World(dendropy, case["cs"])
    # small alphabet: duplicates and case variants abound, so lookups have several matches whose order
    # changes under sort/reverse/relabel (first-match semantics); large alphabet: many distinct members
    labels = LABELS_MODEL if case.get("alphabet") == "small" else LABELS_RANDOM
    evs = []
    for _ in range(case["nops"]):
        mem = [w.tid(t) for t in w.ns._taxa]
        known = list(range(1, len(w.taxa) + 1))
        r = rng.random()
        l = rng.choice(labels)
        c = rng.choice((-1, -1, 0, 1))
        if r < 0.16 or not known:
            evs.append(do_op(w, "NewTaxon", {"l": l}))
        elif r < 0.22:
            evs.append(do_op(w, "CreateTaxon", {"l": l}))
        elif r < 0.27:
            evs.append(do_op(w, "AddTaxon", {"t": rng.choice(known)}))
        elif r < 0.30:
            evs.append(do_op(w, "AddTaxa", {"ts": [rng.choice(known) for _ in range(rng.randint(0, 4))]}))
        elif r < 0.34:
            evs.append(do_op(w, "NewTaxa", {"ls": [rng.choice(labels) for _ in range(rng.randint(0, 3))]}))
        elif r < 0.46:
            evs.append(do_op(w, "RequireTaxon", {"l": l, "c": c}))
        elif r < 0.56:
            evs.append(do_op(w, "RemoveTaxon", {"t": rng.choice(known)}))
        elif r < 0.66:
            evs.append(do_op(w, "RemoveLabel", {"l": l, "c": c, "first": rng.random() < 0.5, "discard": rng.random() < 0.5}))
        elif r < 0.68:
            evs.append(do_op(w, "Clear", {}))
        elif r < 0.74:
            evs.append(do_op(w, "Reverse", {}))
        elif r < 0.82:
            if rng.random() < 0.5 and len(mem) > 1:
                p = list(range(1, len(mem) + 1))
                rng.shuffle(p)
                evs.append(do_op(w, "Sort", {"perm": p}))
            else:
                evs.append(do_op(w, "Sort", {"reverse": rng.random() < 0.5}))
        elif r < 0.90:
            evs.append(do_op(w, "Relabel", {"t": rng.choice(known), "l": l}))
        elif r < 0.93:
            evs.append(do_op(w, "SetCase", {"b": rng.random() < 0.5}))
        elif r < 0.96:
            evs.append(do_op(w, "SetMutable", {"b": rng.random() < 0.6}))
        else:
            evs.append(q_copy(w, rng.choice(("constructor", "copy", "deepcopy"))))
        evs.extend(sweep(w, rng, [l, rng.choice(labels)], False))
    return evs


def model_cases(ctx, cfg):
    dot = os.path.join(ctx.work, "c10.dot")
    # -coverage 1 on the (small) replay model: every action of the specification must have been taken, else the
    # transitions replayed into the code would silently omit an operation (vacuity gate, recorded in the evidence)
    ctx.model("MC_TaxonNamespace", cfg, extra=("-dump", "dot,actionlabels", dot), coverage=True,
              require_actions=("CreateTaxon", "NewTaxon", "AddTaxon", "AddTaxa2", "RemoveTaxon", "QueryBitmask", "RequireTaxon",
                               "RemoveLabel", "ClearAll", "ReverseOrder", "Reorder", "Relabel", "SetCase", "SetMutable", "CopyNs"))
    inits, edges, states = tlaval.read_dot(dot)
    paths, root = tlaval.shortest_paths(inits, edges)
    cases = []
    for (u, v, name, args) in edges:
        if u not in paths:
            continue
        cases.append({"kind": "path", "cs": states[root[u]]["s"]["cs"], "path": paths[u] + [(name, args)]})
    os.remove(dot)
    return cases, len(edges)


def run(ctx):
    quick = ctx.quick
    # 1. TLC checks the design (all histories up to the bound) ...
    ctx.model("MC_TaxonNamespace", "MC_TaxonNamespace_quick.cfg" if quick else "MC_TaxonNamespace_thorough.cfg")
    # ... and must find the shipped rendering rule violating RenderExact (non-vacuity)
    ctx.model("MC_TaxonNamespace", "AsShipped_TaxonNamespace.cfg", expect_violation="RenderExact", count=False)
    # 1b. Apalache discharges the accession discipline as an INDUCTIVE invariant (histories of any length, not only
    # to TLC's bounded depth) on the order-free abstraction TaxonNamespaceInd.tla; two wrong designs (the mechanisms
    # of seeded changes C10-s1 and C10-t2) must be refuted
    ctx.apalache("TaxonNamespaceInd", [
        ("Init", "IndInv", 0, "Next", "NoError"),
        ("IndInit", "IndInv", 1, "Next", "NoError"),
        ("IndInit", "StableStep", 1, "Next", "NoError"),
        ("IndInit", "RoundTrip", 0, "Next", "NoError"),
        ("IndInit", "StableStep", 1, "NextReleasing", "Error"),
        ("IndInit", "IndInv", 1, "NextClearResets", "Error"),
    ])
    # 2. spec -> code: one real execution per model transition
    cases, nedges = model_cases(ctx, "MC_TaxonNamespace_replay_quick.cfg" if quick else "MC_TaxonNamespace_replay_thorough.cfg")
    # 3. random histories on larger namespaces
    nrand = 150 if quick else 3000
    rnd = [{"kind": "random", "seed": ctx.seed * 1000003 + i, "cs": bool(i % 2), "nops": 30 if quick else 60,
            "alphabet": "small" if i % 2 else "large"} for i in range(2 * nrand)]
    driven = ctx.drive(cases + rnd, run_case)
    ctx.judge("Trace_TaxonNamespace", driven)
    for case, evs in driven:
        for e in evs:
            if e["action"] not in ("QMask", "QLookup"):
                ctx.add_nontrivial([e["action"], e.get("args"), e["pre"]["members"], e["pre"]["idx"], e["pre"]["labels"], e["pre"]["cs"], e["pre"]["mut"]])
    ctx.rule = ("cases = one real execution per transition of the dumped TLC state graph of MC_TaxonNamespace "
                "(%d transitions) + 2 x %d seeded random histories (large and small label alphabet); distinct_nontrivial counts distinct "
                "(mutating action, arguments, abstract pre-state) triples actually executed" % (nedges, nrand))
    ctx.exhaustive = False
    ctx.extra["model_transitions_replayed"] = nedges
    if driven:
        ctx.add_sample({"case": driven[0][0], "events": driven[0][1][:2]})
        ctx.add_sample({"case": driven[-1][0], "first_events": driven[-1][1][:2]})


def replay(ctx, rec):
    driven = ctx.drive([rec["case"]], run_case, parallel=False)
    ctx.judge("Trace_TaxonNamespace", driven)
    ctx.rule = "replay of one recorded case"
    ctx.add_sample({"case": rec["case"]})
    ctx.nontrivial.update(["replay", "replay2"])
