"""C01 - bipartition encoding is exact, canonical and sufficient to rebuild the topology.

spec/Bipartitions.tla (EXTENDS TreeBase) states the property: leafsets / normalised splits,
split set <=> topology (TreeBase's split-independent Canon / CanonUnrooted), greedy
reconstruction from any ordering, predicate definitions.  MC_Bipartitions (one tree per
state) and MC_BipartitionsPairs (two trees per state) are checked exhaustively by TLC on the
bounded domains; Vacuity_Bipartitions must find a violation under the wrong normalisation rule.

Every tree/namespace of TLC's dump is built as a real Tree and driven through
encode_bipartitions (all option combinations, repeated and after mutations),
from_bipartition_encoding / from_split_bitmasks under several orderings, the Bipartition
predicates and Tree.is_compatible_with_bipartition; seeded random drivers do the same on
trees with 6-14 leaves and their redrawn / neighbouring variants.  This file only builds
objects, calls the API and projects; Trace_Bipartitions (TLC) judges every event.
"""
import itertools
import os
import random

from vlib import core, tlaval, proj, build, x_c01

ID = "C01"
TRACE = "Trace_Bipartitions"
HEAP = "2g"          # the models are small; the machine is shared


# ----------------------------------------------------------------------------- construction
def make_ns(dendropy, case):
    """namespace whose members get the accession codes case['M'] (ascending) when created; the other
    accession indices below max(M) + trail were added and removed again.  Not yet sorted / reversed."""
    M = case["M"]
    total = max(M) + case.get("trail", 0)
    holes = [i for i in range(total) if (i + 1) not in M]
    labels = None
    if case.get("order") == "sort":
        r = random.Random(case["seed"] + 5)
        perm = list(range(len(M)))
        r.shuffle(perm)
        labels = ["x%02d" % p for p in perm]
    return build.make_namespace(dendropy, len(M), holes=holes, order=None, labels=labels)


def members(ns):
    """codes (accession index + 1, as the namespace reports it now) of the members, ascending;
    does not touch the namespace's bitmask cache"""
    return sorted(int(ns.accession_index(t)) + 1 for t in ns)


def namespace_event(ns):
    """what the namespace answers for every member at the end of the history"""
    acc, bits = [], []
    for t in ns:
        acc.append(int(ns.accession_index(t)) + 1)
        bits.append(C(ns.taxon_bitmask(t)))
    return {"action": "Namespace", "acc": acc, "bits": bits}


def rooted_value(v):
    return {1: True, 0: False, -1: None}[v]


def project(tree):
    ids = {}
    g = proj.tree_graph(tree, node_ids=ids, labels=False)
    order = ids.pop("__order__")
    return g, ids, order


C = proj.codes_of_mask


def call_encode(tree, step, evs, M, thunk=None, route=""):
    """one encode_bipartitions call -> one Encode event; returns the node order of the post-state.
    With thunk: another public operation that was asked to keep the encoding current
    (update_bipartitions=True) is called instead; the stored encoding it leaves behind is logged the
    same way and judged on the tree as it is after the operation (g0 = g1 = post-state)."""
    g0, _, _ = project(tree)
    raised, ret = "", None
    kw = {"suppress_unifurcations": step["su"], "collapse_unrooted_basal_bifurcation": step["cb"]}
    if step.get("ss"):
        kw["suppress_storage"] = True
    if step.get("mut"):
        kw["is_bipartitions_mutable"] = True
    try:
        if thunk is not None:
            thunk()
            ret = tree.bipartition_encoding
        elif step.get("via") == "update":
            tree.update_bipartitions(**kw)
            ret = tree.bipartition_encoding
        else:
            ret = tree.encode_bipartitions(**kw)
    except Exception as ex:
        raised = type(ex).__name__
    g1, ids, order = project(tree)
    if thunk is not None:
        g0 = g1
    ev = {"action": "Encode", "route": route, "g0": g0, "g1": g1, "M": M, "su": bool(step["su"]), "cb": bool(step["cb"]),
          "stored": not step.get("ss"), "raised": raised, "ls": [], "sp": [], "tl": [], "enc": [], "encsp": [],
          "encls": [], "mapk": [], "mapn": [], "hasmap": False, "retok": False}
    if not raised:
        bip_owner = {}
        for nd in order:
            e = nd._edge
            ev["ls"].append(C(e.leafset_bitmask))
            ev["sp"].append(C(e.split_bitmask))
            ev["tl"].append(C(e.tree_leafset_bitmask))
            bip_owner[id(e._bipartition)] = ids[id(nd)]
        enc = tree.bipartition_encoding
        if step.get("ss"):
            ev["retok"] = ret is None and enc is None
        else:
            ev["retok"] = ret is enc and isinstance(enc, list)
            for b in (enc or []):
                ev["enc"].append(bip_owner.get(id(b), 0))
                ev["encsp"].append(C(b.split_bitmask))
                ev["encls"].append(C(b.leafset_bitmask))
            if not step.get("mut"):
                try:
                    m = tree.split_bitmask_edge_map
                    ev["hasmap"] = True
                    for k2 in sorted(m):
                        ev["mapk"].append(C(k2))
                        ev["mapn"].append(ids.get(id(m[k2]._head_node), 0))
                except Exception as ex:
                    ev["raised"] = "split_bitmask_edge_map:" + type(ex).__name__
    evs.append(ev)
    return g0, g1, order


ROUTES = ["reseed_at", "reroot_at_node", "reroot_at_edge", "to_outgroup_position", "reroot_at_midpoint",
          "prune_subtree", "prune_taxa", "retain_taxa", "resolve_polytomies", "suppress_unifurcations",
          "randomly_reorient", "deroot+encode", "collapse_basal_bifurcation+encode"]


def route_thunk(tree, name, rng, ns):
    """(thunk, su, cb) for one public operation called with update_bipartitions=True on `tree`, within
    the operation's documented preconditions; None when the tree offers no admissible argument"""
    _, _, order = project(tree)
    seed = tree.seed_node
    internal = [nd for nd in order if nd._child_nodes and nd is not seed]
    nonseed = [nd for nd in order if nd._parent_node is not None]
    leaves = [nd for nd in order if not nd._child_nodes and nd.taxon is not None]
    sibs = [nd for nd in nonseed if len(nd._parent_node._child_nodes) >= 2]
    su, cb = rng.random() < 0.8, rng.random() < 0.8
    if name == "reseed_at":
        nd = rng.choice(internal or [seed])
        return (lambda: tree.reseed_at(nd, update_bipartitions=True, suppress_unifurcations=su,
                                       collapse_unrooted_basal_bifurcation=cb)), su, cb
    if name == "reroot_at_node":
        nd = rng.choice(internal or [seed])
        return (lambda: tree.reroot_at_node(nd, update_bipartitions=True, suppress_unifurcations=su,
                                            collapse_unrooted_basal_bifurcation=cb)), su, cb
    if name == "reroot_at_edge":
        if not nonseed:
            return None
        nd = rng.choice(nonseed)
        return (lambda: tree.reroot_at_edge(nd.edge, update_bipartitions=True, suppress_unifurcations=su)), su, True
    if name == "to_outgroup_position":
        if not sibs:
            return None
        nd = rng.choice(sibs)
        return (lambda: tree.to_outgroup_position(nd, update_bipartitions=True, suppress_unifurcations=su)), su, True
    if name == "reroot_at_midpoint":
        if len(leaves) < 2:
            return None
        for nd in order:
            nd.edge.length = rng.choice([1, 2, 3])
        return (lambda: tree.reroot_at_midpoint(update_bipartitions=True, suppress_unifurcations=su,
                                                collapse_unrooted_basal_bifurcation=cb)), su, cb
    if name == "prune_subtree":
        if not sibs:
            return None
        nd = rng.choice(sibs)
        return (lambda: tree.prune_subtree(nd, update_bipartitions=True, suppress_unifurcations=su)), su, True
    if name in ("prune_taxa", "retain_taxa"):
        if len(leaves) < 3:
            return None
        drop = rng.sample(leaves, rng.randint(1, len(leaves) - 2))
        gone = [nd.taxon for nd in drop]
        kept = [nd.taxon for nd in leaves if nd not in drop]
        if name == "prune_taxa":
            return (lambda: tree.prune_taxa(gone, update_bipartitions=True, suppress_unifurcations=su)), su, True
        return (lambda: tree.retain_taxa(kept, update_bipartitions=True, suppress_unifurcations=su)), su, True
    if name == "resolve_polytomies":
        return (lambda: tree.resolve_polytomies(update_bipartitions=True)), True, True
    if name == "suppress_unifurcations":
        # documented to keep an existing encoding current: the tree is encoded (unifurcations kept) first
        tree.encode_bipartitions(suppress_unifurcations=False, collapse_unrooted_basal_bifurcation=False)
        return (lambda: tree.suppress_unifurcations(update_bipartitions=True)), True, False
    if name == "randomly_reorient":
        if len(seed._child_nodes) < 2:
            return None
        r2 = random.Random(rng.random())
        return (lambda: tree.randomly_reorient(rng=r2, update_bipartitions=True)), True, True
    if name == "deroot+encode":
        def f():
            tree.deroot()
            tree.encode_bipartitions(suppress_unifurcations=su, collapse_unrooted_basal_bifurcation=cb)
        return f, su, cb
    if name == "collapse_basal_bifurcation+encode":
        def f2():
            tree.collapse_basal_bifurcation(set_as_unrooted_tree=False)
            tree.encode_bipartitions(suppress_unifurcations=su, collapse_unrooted_basal_bifurcation=cb)
        return f2, su, cb
    return None


def nested_of_graph(g):
    """the projected tree as a nested form whose taxon entries are taxon codes (purely syntactic)"""
    def mk(x):
        t = g["tx"][x - 1]
        return [None, t if t else None, None, [mk(c) for c in g["kids"][x - 1]]]
    return mk(g["seed"])


def run_route(dendropy, case, ns, taxa, evs, rng):
    """an encoding ROUTE: a fresh copy of the case's tree, (a stale encoding left on it)?, one public
    operation with update_bipartitions=True, then the stored per-edge masks / encoding list are logged
    without any further encode call, and compared with a directly encoded redrawn copy of the result"""
    name = case["route"]
    M = members(ns)
    tree = build.build_tree(dendropy, case["nested"], ns, taxa, rooted=rooted_value(case["rooted"]))
    if case.get("route_stale"):
        tree.encode_bipartitions(suppress_unifurcations=False, collapse_unrooted_basal_bifurcation=False)
    rt = route_thunk(tree, name, rng, ns)
    if rt is None:
        return
    thunk, su, cb = rt
    if case.get("route_stale") and tree.bipartition_encoding:
        tree.split_bitmask_edge_map         # the cached maps exist before the operation
    _, g1, _ = call_encode(tree, {"su": su, "cb": cb}, evs, M, thunk=thunk, route=name)
    ev = evs[-1]
    if ev["raised"] or not isinstance(tree.bipartition_encoding, list):
        return
    by_code = dict((int(ns.accession_index(t)) + 1, t) for t in ns)
    mate_nested = x_c01.shuffle_children(nested_of_graph(g1), rng)
    if any(not k and not t for k, t in zip(g1["kids"], g1["tx"])):
        return      # the operation left a leaf without taxon: outside the pair clause's domain
    mate = build.build_tree(dendropy, mate_nested, ns, by_code, rooted=rooted_value(g1["rooted"]))
    gb0, _, _ = call_encode(mate, {"su": True, "cb": True}, evs, M)
    if evs[-1]["raised"]:
        return
    evs.append({"action": "Pair", "ga": g1, "gb": gb0, "ssa": [C(b.split_bitmask) for b in tree.bipartition_encoding],
                "ssb": [C(b.split_bitmask) for b in mate.bipartition_encoding]})


def mutate(tree, kind, rng):
    """raw edits between two encodings (stale bipartitions stay on the edges)"""
    _, _, order = project(tree)
    leaves = [nd for nd in order if not nd._child_nodes and nd.taxon is not None]
    if kind == "swap_taxa" and len(leaves) >= 2:
        a, b = rng.sample(leaves, 2)
        a.taxon, b.taxon = b.taxon, a.taxon
    elif kind == "move_leaf":
        movable = [nd for nd in leaves if nd._parent_node is not None and len(nd._parent_node._child_nodes) >= 3]
        if movable:
            x = rng.choice(movable)
            targets = [nd for nd in order if nd._child_nodes and nd is not x._parent_node]
            if targets:
                y = rng.choice(targets)
                x._parent_node.remove_child(x)
                y.add_child(x)


def orderings(n, case, rng):
    idx = list(range(n))
    if n <= case.get("allperms_upto", 0):
        return [list(p) for p in itertools.permutations(idx)]
    outs = {0: [idx, idx[::-1], idx[n // 2:] + idx[:n // 2]], 1: [idx[::-1]], 2: [idx[n // 2:] + idx[:n // 2]],
            3: [idx]}[case.get("fixed_orders", 0)]
    for _ in range(case.get("shuffles", 1)):
        p = idx[:]
        rng.shuffle(p)
        outs.append(p)
    seen, res = set(), []
    for p in outs:
        if tuple(p) not in seen:
            seen.add(tuple(p))
            res.append(p)
    return res


def run_case(case):
    import dendropy
    rng = random.Random(case["seed"])
    ns, taxa = make_ns(dendropy, case)
    evs = []
    rooted = rooted_value(case["rooted"])
    # namespace history: (bitmasks handed out for part of the members by encoding a tree with an
    # incomplete leaf set)? -> sort / reverse -> everything else
    pre = case.get("pre_taxa")
    if pre:
        ptree = build.build_tree(dendropy, [None, None, None, [[None, i, None, []] for i in pre]], ns, taxa, rooted=rooted)
        call_encode(ptree, {"su": True, "cb": True}, evs, members(ns))
    if case.get("readd") is not None:
        # a member whose bit has been handed out leaves the namespace and the SAME Taxon object is registered again:
        # it is accessioned anew, and every later encoding must use its new bit (seeded change C01-v1: stale cache)
        t = taxa[case["readd"] % len(taxa)]
        ns.taxon_bitmask(t)
        ns.remove_taxon(t)
        ns.add_taxon(t)
    if case.get("order") == "reverse":
        ns.reverse()
    elif case.get("order") == "sort":
        ns.sort()
    M = members(ns)
    tree = build.build_tree(dendropy, case["nested"], ns, taxa, rooted=rooted)
    g0 = g1 = order = None
    for step in case["steps"]:
        if step["op"] == "mutate":
            mutate(tree, step["kind"], rng)
        else:
            g0, g1, order = call_encode(tree, step, evs, M)
    if evs[-1]["raised"]:
        evs.append(namespace_event(ns))
        return evs
    ga0 = g0
    rt = bool(tree.is_rooted)
    enc = list(tree.bipartition_encoding)
    ssa = [C(b.split_bitmask) for b in enc]

    # ---- reconstruction from orderings of the encoding
    if case.get("rebuild", True):
        for k, p in enumerate(orderings(len(enc), case, rng)):
            api = "from_bipartition_encoding" if (k + case["seed"]) % 2 == 0 else "from_split_bitmasks"
            q = [enc[i] for i in p]
            raised, gr, rtree = "", None, None
            try:
                if api == "from_bipartition_encoding":
                    rtree = dendropy.Tree.from_bipartition_encoding(q, taxon_namespace=ns, is_rooted=rt)
                else:
                    rtree = dendropy.Tree.from_split_bitmasks([b.split_bitmask for b in q], taxon_namespace=ns, is_rooted=rt)
            except Exception as ex:
                raised = type(ex).__name__
            gr = project(rtree)[0] if rtree is not None else g1
            evs.append({"action": "Rebuild", "g0": ga0, "M": M, "q": [C(b.split_bitmask) for b in q], "api": api, "rt": rt,
                        "gr": gr, "raised": raised})
            if rtree is not None and k == 0 and case.get("reencode_rebuilt"):
                # the rebuilt tree carries a partial encoding from its construction; encode it properly
                call_encode(rtree, {"su": True, "cb": True}, evs, M)

    # ---- a second tree on the same taxa / namespace / rooting
    treeb, orderb = tree, order
    if case.get("mate") is not None:
        treeb = build.build_tree(dendropy, case["mate"], ns, taxa, rooted=rooted)
        evb = []
        gb0, _, orderb = call_encode(treeb, case["mate_step"], evb, M)
        if case.get("log_mate", True) or evb[-1]["raised"]:
            evs.extend(evb)         # (in model cases the partner is a case of its own)
        if evb[-1]["raised"]:
            evs.append(namespace_event(ns))
            return evs
        ssb = [C(b.split_bitmask) for b in treeb.bipartition_encoding]
        evs.append({"action": "Pair", "ga": ga0, "gb": gb0, "ssa": ssa, "ssb": ssb})

    # ---- predicates between the bipartitions of the two trees (or of the tree with itself)
    if case.get("pred", True):
        ba = [nd._edge.bipartition for nd in order]
        bb = [nd._edge.bipartition for nd in orderb]

        def side(t, bs):
            return {"rooted": bool(t.is_rooted), "F": C(t.seed_node.edge.bipartition.tree_leafset_bitmask),
                    "sp": [C(b.split_bitmask) for b in bs], "ls": [C(b.leafset_bitmask) for b in bs],
                    "enc": [C(b.split_bitmask) for b in t.bipartition_encoding]}
        ev = {"action": "Pred", "A": side(tree, ba), "B": side(treeb, bb), "triv": [], "compat": [], "nested": [],
              "tcompat": [], "tcompat2": [], "raised": "", "gA2": g1}
        try:
            ev["triv"] = [bool(x.is_trivial()) for x in ba]
            ev["compat"] = [[bool(x.is_compatible_with(y)) for y in bb] for x in ba]
            ev["nested"] = [[bool(x.is_leafset_nested_within(y)) for y in bb] for x in ba]
            ev["tcompat"] = [bool(tree.is_compatible_with_bipartition(y, is_bipartitions_updated=True)) for y in bb]
            # default: the tree re-encodes itself (default options) before answering, so an edit made
            # since the last encoding must be taken into account
            if case.get("edit_before_default"):
                mutate(tree, case["edit_before_default"], rng)
            ev["tcompat2"] = [bool(tree.is_compatible_with_bipartition(y)) for y in bb]
            ev["gA2"] = project(tree)[0]
        except Exception as ex:
            ev["raised"] = type(ex).__name__
            for k2 in ("triv", "tcompat", "tcompat2"):
                ev[k2] = []
            ev["compat"], ev["nested"] = [], []
        evs.append(ev)
    if case.get("route"):
        run_route(dendropy, case, ns, taxa, evs, rng)
    evs.append(namespace_event(ns))
    return evs


# ----------------------------------------------------------------------------- cases
COMBOS = [(False, False), (True, True), (False, True), (True, False)]


def steps_for(k, rng):
    su, cb = COMBOS[k % 4]
    main = {"op": "encode", "su": su, "cb": cb}
    h = (k // 4) % 6
    if h == 0:
        return [main]
    if h == 1:      # earlier encoding left behind, differently normalised
        su0, cb0 = COMBOS[(k + 1) % 4]
        return [{"op": "encode", "su": su0, "cb": cb0, "ss": k % 3 == 0, "mut": k % 3 == 1}, main]
    if h == 2:      # stale encoding after an edit
        return [{"op": "encode", "su": False, "cb": False}, {"op": "mutate", "kind": "swap_taxa"}, main]
    if h == 3:
        return [{"op": "encode", "su": True, "cb": True, "mut": True}, {"op": "mutate", "kind": "move_leaf"}, main]
    if h == 4:
        return [dict(main, via="update")]
    return [{"op": "encode", "su": False, "cb": False, "ss": True}, main]


def pre_taxa(n, k, rng):
    """taxon indices of the tree with an incomplete leaf set that is encoded before the namespace is
    sorted / reversed (half of the cases)"""
    if k % 2 or n < 2:
        return None
    return sorted(rng.sample(range(n), rng.randint(1, n - 1)))


def model_cases(ctx, states, sample=None):
    """one case per (tree, namespace) state of MC_Bipartitions; the partner tree of each case is
    another state with the same taxa, namespace and rooting.  sample: {leaf count: m} replays one
    state in m of the classes with that many leaves (quick tier; which one depends on the seed)"""
    doms = [s for s in states if s["stage"] == 1]
    groups = {}
    recs = []
    for st in doms:
        g = st["g"]
        M = sorted(st["M"])
        leaf_codes = [t for t in g["tx"] if t != 0]
        nested = build.nested_from_parents(g["par"], [M.index(c) for c in leaf_codes])
        rec = {"M": M, "rooted": g["rooted"], "nested": nested, "key": (tuple(M), tuple(sorted(leaf_codes)), g["rooted"])}
        recs.append(rec)
    recs.sort(key=lambda r: core.dumps([r["M"], r["rooted"], r["nested"]]))   # dump order is not deterministic
    for r in recs:
        groups.setdefault(r["key"], []).append(r)
    cases = []
    rng = random.Random(ctx.seed + 101)
    k = 0
    for key in sorted(groups):
        grp = groups[key]
        n = len(grp)
        stride = rng.randrange(1, n) if n > 1 else 0
        mod = (sample or {}).get(len(key[1]), 1)
        for i, r in enumerate(grp):
            k += 1
            if (i + ctx.seed) % mod != 0:
                continue
            mate = grp[(i * 5 + stride) % n] if n > 1 else None
            case = {"kind": "model", "seed": ctx.seed * 7919 + k, "M": r["M"], "rooted": r["rooted"], "nested": r["nested"],
                    "trail": (k // 3) % 2, "order": [None, "reverse", "sort"][k % 3], "steps": steps_for(k, rng),
                    "allperms_upto": 3, "shuffles": 1, "fixed_orders": 1 + k % 3, "reencode_rebuilt": k % 7 == 0,
                    "log_mate": False, "mate": mate["nested"] if mate else None,
                    "edit_before_default": [None, None, "swap_taxa", "move_leaf"][(k // 5) % 4],
                    "pre_taxa": pre_taxa(len(r["M"]), k, rng), "readd": k if k % 4 == 1 else None,
                    "route": ROUTES[(k // 3) % len(ROUTES)] if k % 3 == 0 else None, "route_stale": (k // 3) % 2 == 0,
                    "mate_step": {"op": "encode", "su": COMBOS[(k // 2) % 4][0], "cb": COMBOS[(k // 2) % 4][1]}}
            cases.append(case)
    return cases


def random_cases(ctx, n):
    rng = random.Random(ctx.seed + 1001)
    cases = []
    for k in range(n):
        nl = rng.randint(6, 14)
        extra = rng.choice([0, 0, 1, 2, 3])
        nbits = nl + extra + rng.choice([0, 0, 1, 2])
        M = sorted(rng.sample(range(1, nbits + 1), nl + extra))
        if rng.random() < 0.4 and 1 in M and len(M) > nl:
            M.remove(1)
        if len(M) < nl:
            M = sorted(set(M) | set(range(nbits + 1, nbits + 1 + nl - len(M))))
        leaf_idx = rng.sample(range(len(M)), nl)
        shape = build.random_parents(rng, nl, p_poly=0.25, p_unif=0.12)
        nested = build.assign(shape, rng, leaf_idx, len_none_all=True)
        if rng.random() < 0.15:
            nested = x_c01.wrap_root(nested)
        rooted = rng.choice([1, 1, 1, 0, 0, 0, 0, -1])
        kind = rng.choice(["redrawn", "redrawn", "nni", "swap", "independent"])
        mate = x_c01.copy_nested(nested)
        if kind == "redrawn":
            x_c01.shuffle_children(mate, rng)
            if rooted != 1:
                mate = x_c01.reroot(mate, rng)
            x_c01.add_unifurcations(mate, rng, 0.15)
        elif kind == "nni":
            x_c01.nni(mate, rng)
            x_c01.shuffle_children(mate, rng)
        elif kind == "swap":
            x_c01.swap_leaves(mate, rng)
        else:
            mate = build.assign(build.random_parents(rng, nl, p_poly=0.25, p_unif=0.1), rng,
                                rng.sample(leaf_idx, nl), len_none_all=True)
        cases.append({"kind": "random", "mate_kind": kind, "seed": ctx.seed * 7919 + 500000 + k, "M": M, "rooted": rooted,
                      "nested": nested, "trail": rng.choice([0, 0, 1, 2]), "order": rng.choice([None, "reverse", "sort"]),
                      "steps": steps_for(rng.randrange(24), rng), "allperms_upto": 0, "shuffles": 2,
                      "reencode_rebuilt": k % 3 == 0, "mate": mate,
                      "edit_before_default": rng.choice([None, None, "swap_taxa", "move_leaf"]),
                      "pre_taxa": pre_taxa(len(M), rng.randrange(4), rng), "readd": k if k % 3 == 1 else None,
                      "route": ROUTES[k % len(ROUTES)], "route_stale": rng.random() < 0.5,
                      "mate_step": {"op": "encode", "su": rng.random() < 0.7, "cb": rng.random() < 0.7}})
    return cases


def account(ctx, driven):
    basal = unif = 0
    for case, evs in driven:
        for e in evs:
            a = e["action"]
            if a == "Encode":
                g0, g1 = e["g0"], e["g1"]
                if sum(1 for t, k in zip(g0["tx"], g0["kids"]) if not k) >= 3:
                    ctx.add_nontrivial(["Encode", e["route"], g0["par"], g0["tx"], g0["rooted"], e["su"], e["cb"]])
                if e["route"]:
                    rk = "route:" + e["route"] + (":raised:" + e["raised"] if e["raised"] else "")
                    ctx.extra.setdefault("routes", {})[rk] = ctx.extra.setdefault("routes", {}).get(rk, 0) + 1
                # structure the call leaves behind although the option asked for its removal (the property is
                # about the masks; counted, never failing)
                if g1["n"] and not e["raised"]:
                    if e["cb"] and g1["rooted"] != 1 and len(g1["kids"][g1["seed"] - 1]) == 2 and g1["n"] > 3:
                        basal += 1
                    if e["su"] and any(len(k) == 1 for k in g1["kids"]):
                        unif += 1
            elif a == "Rebuild":
                if len(e["M"]) >= 3:
                    ctx.add_nontrivial(["Rebuild", e["g0"]["par"], e["g0"]["tx"], e["rt"], e["q"], e["M"]])
            elif a == "Pair":
                ctx.add_nontrivial(["Pair", e["ga"]["par"], e["ga"]["tx"], e["gb"]["par"], e["gb"]["tx"], e["ga"]["rooted"]])
            elif a == "Pred":
                if len(e["A"]["sp"]) >= 4:
                    ctx.add_nontrivial(["Pred", e["A"]["sp"], e["B"]["sp"], e["A"]["rooted"]])
    ctx.drift["basal_bifurcation_left_after_collapse_requested"] = ctx.drift.get("basal_bifurcation_left_after_collapse_requested", 0) + basal
    ctx.drift["unifurcation_left_after_suppression_requested"] = ctx.drift.get("unifurcation_left_after_suppression_requested", 0) + unif


def check_machinery(ctx):
    """C01.InputInDomain = the judged input is outside the domain of the property (ill-formed tree,
    leaves without distinct taxa of the namespace, ...).  The driver never builds such inputs, so on
    a library that behaves it cannot occur; when it is the first failing verdict of a trace it is
    reported like any other verdict (the library made the input leave the domain); after another
    failing verdict in the same trace it is a consequence of that one and is dropped."""
    first = {}
    for v in ctx.verdicts:
        if v["tid"] not in first or v["step"] < first[v["tid"]]["step"] or \
                (v["step"] == first[v["tid"]]["step"] and v["clause"] != "C01.InputInDomain"):
            first[v["tid"]] = v
    keep = set(id(v) for v in first.values())
    ctx.verdicts[:] = [v for v in ctx.verdicts if v["clause"] != "C01.InputInDomain" or id(v) in keep]


def run(ctx):
    q = ctx.quick
    dump = os.path.join(ctx.work, "bip.dump")
    if q:
        ctx.model("MC_Bipartitions", "MC_Bipartitions_quick.cfg", extra=("-dump", dump), heap=HEAP)
        sample = {3: 2, 4: 4}
    else:
        ctx.model("MC_Bipartitions", "MC_Bipartitions_thorough.cfg", heap=HEAP)
        ctx.model("MC_Bipartitions", "MC_Bipartitions_thorough9.cfg", heap=HEAP)
        ctx.model("MC_Bipartitions", "MC_Bipartitions_replay_thorough.cfg", extra=("-dump", dump), count=False, heap=HEAP)
        sample = None
    states = tlaval.read_dump(dump)
    os.remove(dump)
    ctx.model("MC_BipartitionsPairs", "MC_BipartitionsPairs_%s.cfg" % ctx.tier, heap=HEAP)
    ctx.model("MC_Bipartitions", "Vacuity_Bipartitions.cfg", expect_violation="IffAsFunctions", count=False, heap="1g")
    cases = model_cases(ctx, states, sample)
    ndom = sum(1 for st in states if st["stage"] == 1)
    nmodel = len(cases)
    nrand = 200 if q else 4000
    cases += random_cases(ctx, nrand)
    driven = ctx.drive(cases, run_case)
    ctx.judge(TRACE, driven, batch=5000 if q else 12000, heap="1500m")
    check_machinery(ctx)
    account(ctx, driven)
    dom = ("all ordered trees with <= 7 nodes and <= 4 leaves" if q else "all ordered trees with <= 8 nodes and <= 5 leaves")
    ctx.rule = ("(tree, namespace) states of TLC's dump of MC_Bipartitions (%s x both rootings x every assignment of the listed leaf sets "
                "(dense, without bit 0, with gaps) x namespaces with extra members below/between/above): %d of the %d states%s, each built as real "
                "objects (trailing removed taxa varied; namespace sorted / reversed / left, in half of the cases after a tree with an incomplete leaf set was encoded), encoded under the 4 option combinations incl. repeated "
                "encodings and raw edits in between, rebuilt from several orderings of the encoding (all orderings up to 3 entries), paired "
                "with another state on the same taxa, + %d random trees with 6-14 leaves with a redrawn / NNI / leaf-swapped / independent "
                "partner; distinct_nontrivial = distinct (call, tree with >= 3 leaves, options | ordering | partner tree)"
                % (dom, nmodel, ndom, " (quick tier: every state with <= 2 leaves, 1 in 2 with 3 leaves, 1 in 4 with 4 leaves; which ones depends on VERIF_SEED)" if q else "", nrand))
    ctx.exhaustive = not q
    ctx.extra["exhaustive_domain"] = ("the %d (tree, namespace) states of MC_Bipartitions_replay_thorough.cfg, each replayed once" % ndom) if not q else \
        "TLC: all %d states of MC_Bipartitions_quick.cfg and all pairs of MC_BipartitionsPairs_quick.cfg; replay: a seed-dependent sample (%d) of them" % (ndom, nmodel)
    ctx.assumptions.append("leaves carry distinct taxa of the tree's namespace; from_bipartition_encoding / from_split_bitmasks are called with the "
                           "rooting of the encoded tree and an encoding of one tree (mutually compatible splits)")
    ctx.add_sample({"case": driven[len(driven) // 3][0], "event": driven[len(driven) // 3][1][0]})
    ctx.add_sample({"case": driven[-1][0], "event": driven[-1][1][-2]})


def replay(ctx, rec):
    driven = ctx.drive([rec["case"]], run_case, parallel=False)
    ctx.judge(TRACE, driven, heap="1500m")
    check_machinery(ctx)
    ctx.rule = "replay of one recorded case"
    ctx.add_sample({"case": rec["case"]})
