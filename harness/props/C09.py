"""C09 - character matrices survive a round trip through NEXUS, PHYLIP, FASTA and NeXML.

spec/CharIO.tla: matrices, a writer/reader pair per format over abstract streams, the data-set level
TITLE/LINK (NEXUS) and otus-id (NeXML) protocol.  MC_CharIO (TLC) checks Read_f(Write_f(m)) = m, the pair
property and NamespaceOfEachComponent on a bounded domain and dumps the cases; every dumped case is replayed
on the real matrix classes / DataSet (all construction routes, as_string/get, DataSet write/read, file
write/read, dendropy_format.convert); seeded random drivers use larger matrices over the full symbol sets.
Every real execution is logged (projected matrix before, the written text projected to the abstract stream
of its format, projected matrix after) and judged by TLC with spec/Trace_CharIO.tla.  No oracle here.
"""
import argparse
import glob
import json
import os
import random
import shutil
import sys
import tempfile
import warnings

from vlib import core, tlaval
from vlib import x_c09 as X

ID = "C09"

LAY0 = {"strict": False, "page": 0, "match": False, "wrap": 0, "seqs": False, "multispace": False}
JUNK = {"dna": "G", "rna": "C", "nucleotide": "A", "protein": "W", "standard": "7", "restriction": "1", "infinite": "0",
        "continuous": "7/2"}
APIS = ["matrix", "dataset", "file"]
JUDGE_ENV = {"JAVA_TOOL_OPTIONS": "-Xss256m"}     # the readers of CharIO.tla recurse once per line of a document


def _exc(ex):
    return type(ex).__name__


def lay_name(fmt, lay):
    parts = []
    for k in ("strict", "match", "seqs", "multispace", "lower", "shuffle_ids", "reverse_cells", "simple", "nowrap"):
        if lay.get(k):
            parts.append(k)
    for k in ("page", "wrap", "spaces"):
        if lay.get(k):
            parts.append("%s=%d" % (k, 1 if lay[k] == 1 else 2))
    for k in ("gap", "missing"):
        if k in lay:
            parts.append("%s_decl" % k)
    return ",".join(parts) or "default"


def full_lay(lay):
    d = dict(LAY0)
    for k in LAY0:
        if k in lay:
            d[k] = lay[k]
    return d


# ----------------------------------------------------------------------------- steps on the real library
def parse_source(dendropy, am, fmt, lay, evs, model_layout):
    """A source document for abstract matrix `am` in layout `lay`, read by the real reader (route parsed_<fmt>)."""
    t = am["type"]
    st = X.py_write(fmt, am, lay)
    if lay.get("lower") and t != "continuous":
        st = lower_stream(fmt, st)
    text = X.render(fmt, st)
    cls = X.matrix_class(dendropy, t)
    M, raised = None, ""
    try:
        M = cls.get(data=text, schema=fmt, **X.reader_kwargs(fmt, lay))
        out = X.project_matrix(M)
    except Exception as ex:
        raised, out = _exc(ex), X.EMPTY
    evs.append({"action": "Parse", "fmt": fmt, "type": t, "ro": X.ro_record(lay), "layout": lay_name(fmt, lay),
                "lay": full_lay(lay), "model_layout": bool(model_layout), "src_taxa": am["taxa"],
                "stream": st, "out": out, "raised": raised})
    return M


def lower_stream(fmt, st):
    low = lambda c: c.lower() if len(c) == 1 else c
    st = json.loads(json.dumps(st))
    if fmt == "phylip":
        # only the sequence part: keep labels (first token / first 10 columns) untouched
        return st
    if fmt == "fasta":
        st["lines"] = [ln if (ln and ln[0] == ">") else [low(c) for c in ln] for ln in st["lines"]]
    elif fmt == "nexus":
        for r in st["rows"]:
            r["cells"] = [low(c) for c in r["cells"]]
    elif fmt == "nexml" and st["seqs"]:
        for r in st["rows"]:
            for c in r["cells"]:
                c["state"] = low(c["state"])
    return st


def build(dendropy, am, route, src, evs, model_layout=True):
    """real matrix for the abstract matrix through a construction route (None if construction failed)"""
    t = am["type"]
    try:
        if route == "from_dict":
            return X.build_from_dict(dendropy, am)
        if route == "concatenated":
            return X.build_concatenated(dendropy, am)
        if route == "exported":
            return X.build_exported(dendropy, am, JUNK[t])
        if route == "exported_typed":
            return X.build_exported_typed(dendropy, am, JUNK[t])
        if route in ("observed_then_rows", "observed_then_columns"):
            # two-phase history: build, observe (write / iterate), complete by a row or column operation; the concrete
            # operation and observation rotate with the case
            ops = X.ROW_OPS if route == "observed_then_rows" else X.COL_OPS
            k = src.get("variant", 0) if isinstance(src, dict) else 0
            return X.build_observed(dendropy, am, ops[k % len(ops)], X.OBSERVATIONS[(k // len(ops)) % len(X.OBSERVATIONS)], JUNK[t])
    except Exception as ex:
        raise core.MachineryError("construction route %s failed on %s: %r" % (route, core.dumps(am)[:300], ex))
    if route.startswith("parsed_"):
        return parse_source(dendropy, am, route[len("parsed_"):], src, evs, model_layout)
    if route in ("typed_self_concatenated", "typed_self_extended", "typed_aba"):
        # parsed from NeXML (typed cells), then combined with itself / with a repeated operand
        if route == "typed_aba":
            n = max(len(r) for r in am["rows"])
            k = max(1, n // 2)
            parts = [{"type": t, "taxa": am["taxa"], "rows": [r[:k] for r in am["rows"]]}]
            if n > k:
                parts.append({"type": t, "taxa": am["taxa"], "rows": [r[k:] for r in am["rows"]]})
            ns = None
            ms = []
            for part in parts:
                text = X.render("nexml", X.py_write("nexml", part, src))
                kw = {"taxon_namespace": ns} if ns is not None else {}
                try:
                    mm = X.matrix_class(dendropy, t).get(data=text, schema="nexml", **kw)
                except Exception as ex:
                    raise core.MachineryError("construction route %s failed: %r" % (route, ex))
                ns = mm.taxon_namespace
                ms.append(mm)
            try:
                return X.matrix_class(dendropy, t).concatenate(ms + [ms[0]])
            except Exception as ex:
                raise core.MachineryError("construction route %s failed: %r" % (route, ex))
        M = parse_source(dendropy, am, "nexml", src, evs, model_layout)
        if M is None:
            return None
        try:
            return X.build_self_combined(dendropy, M, route)
        except Exception as ex:
            raise core.MachineryError("construction route %s failed on %s: %r" % (route, core.dumps(am)[:300], ex))
    raise core.MachineryError("unknown route %s" % route)


def write_read(dendropy, M, t, fmt, lay, api, tmpdir):
    """real write + real read; returns (text or None, wraised, out matrix or None, rraised)"""
    cls = X.matrix_class(dendropy, t)
    wkw = X.writer_kwargs(fmt, lay)
    rkw = X.reader_kwargs(fmt, lay)
    text, wraised, M2, rraised = None, "", None, ""
    path = os.path.join(tmpdir, "m.%s" % fmt)
    try:
        if api == "dataset":
            ds = dendropy.DataSet()
            ds.add_char_matrix(M)
            text = ds.as_string(schema=fmt, **wkw)
        elif api == "file":
            M.write(path=path, schema=fmt, **wkw)
            with open(path) as f:
                text = f.read()
        else:
            text = M.as_string(schema=fmt, **wkw)
    except Exception as ex:
        return None, _exc(ex), None, ""
    try:
        if api == "dataset":
            kw = dict(rkw)
            if fmt in ("phylip", "fasta"):
                kw["data_type"] = t
            ds2 = dendropy.DataSet.get(data=text, schema=fmt, **kw)
            M2 = ds2.char_matrices[0]
            if M2.data_type != t:
                rraised = "TypeChanged:" + str(M2.data_type)
                M2 = None
        elif api == "file":
            M2 = cls.get(path=path, schema=fmt, **rkw)
        else:
            M2 = cls.get(data=text, schema=fmt, **rkw)
    except Exception as ex:
        rraised = _exc(ex)
    return text, wraised, M2, rraised


def round_trip(dendropy, M, t, route, fmt, lay, api, tmpdir, evs):
    min_ = X.project_matrix(M)
    if any(c == "" for r in min_["rows"] for c in r) or not min_["rows"]:
        return None          # not a matrix of states (undefined cells): outside the writers' precondition
    text, wraised, M2, rraised = write_read(dendropy, M, t, fmt, lay, api, tmpdir)
    st = X.project_stream(fmt, text, t, strict=bool(lay.get("strict"))) if text is not None else None
    evs.append({"action": "RoundTrip", "fmt": fmt, "type": t, "route": route, "api": api, "ro": X.ro_record(lay),
                "seqs": bool(lay.get("seqs")), "wrap": 0 if (lay.get("nowrap") or fmt != "fasta") else 70,
                "min": min_, "wraised": wraised, "stream_ok": st is not None, "stream": st if st is not None else X.NO_STREAM,
                "rraised": rraised, "out": X.project_matrix(M2) if M2 is not None else X.EMPTY})
    return M2


CONVERT_IN = {("phylip", False, False, False): "phylip-relaxed-singlespace", ("phylip", False, True, False): "phylip-relaxed-multispace",
              ("phylip", True, False, False): "phylip-strict", ("phylip", False, False, True): "phylip-relaxed-singlespace-interleaved",
              ("phylip", False, True, True): "phylip-relaxed-multispace-interleaved", ("phylip", True, False, True): "phylip-strict-interleaved"}


def convert(dendropy, am, sfmt, slay, fmt, lay, tmpdir, evs):
    """dendropy-format: a source document in sfmt converted to fmt by dendropy.application.dendropy_format.convert,
    the result read back as the same type"""
    from dendropy.application import dendropy_format
    t = am["type"]
    sst = X.py_write(sfmt, am, slay)
    src_path = os.path.join(tmpdir, "src.%s" % sfmt)
    with open(src_path, "w") as f:
        f.write(X.render(sfmt, sst))
    if sfmt == "phylip":
        inf = CONVERT_IN[("phylip", bool(slay.get("strict")), bool(slay.get("multispace")), slay.get("page", 0) > 0)]
    else:
        inf = sfmt
    outf = "phylip-strict" if (fmt == "phylip" and lay.get("strict")) else fmt
    args = argparse.Namespace(source_file=src_path, input_format=inf, output_format=outf, data_type=t,
                              unquoted_underscores=False, recode_uncertain=None)
    cap = X.KeepOpen()
    old_out, old_err = sys.stdout, sys.stderr
    text, wraised = None, ""
    try:
        sys.stdout = cap
        sys.stderr = X.KeepOpen()
        dendropy_format.convert(args)
        text = cap.getvalue()
    except (Exception, SystemExit) as ex:
        wraised = _exc(ex)
    finally:
        sys.stdout, sys.stderr = old_out, old_err
    cls = X.matrix_class(dendropy, t)
    M2, rraised = None, ""
    if text is not None:
        try:
            M2 = cls.get(data=text, schema=fmt, **X.reader_kwargs(fmt, lay))
        except Exception as ex:
            rraised = _exc(ex)
    st = X.project_stream(fmt, text, t, strict=bool(lay.get("strict"))) if text is not None else None
    evs.append({"action": "Convert", "sfmt": sfmt, "sro": X.ro_record(slay), "sstream": sst, "slayout": lay_name(sfmt, slay),
                "fmt": fmt, "type": t, "route": "parsed_" + sfmt, "api": "dendropy_format", "ro": X.ro_record(lay),
                "seqs": False, "wrap": 70 if fmt == "fasta" else 0,
                "wraised": wraised, "stream_ok": st is not None, "stream": st if st is not None else X.NO_STREAM,
                "rraised": rraised, "out": X.project_matrix(M2) if M2 is not None else X.EMPTY})
    return M2


# ----------------------------------------------------------------------------- data sets
def project_components(ds):
    comps = []
    for m in ds.char_matrices:
        ns = m.taxon_namespace
        ids = [id(x) for x in ns._taxa]
        pm = X.project_matrix(m)
        comps.append({"kind": "CHARACTERS", "nslabels": [X.chars(x.label or "") for x in ns._taxa], "taxa": pm["taxa"],
                      "rows": pm["rows"], "leaves": [],
                      "typed": all(all(ct is not None for ct in sq._character_types) for sq in m._taxon_sequence_map.values()),
                      "taxa_idx": [(ids.index(id(x)) + 1) for x in ns._taxa if x in m._taxon_sequence_map]})
    for tl in ds.tree_lists:
        ns = tl.taxon_namespace
        ids = [id(x) for x in ns._taxa]
        leaves, idx = [], []
        for tr in tl:
            ll = []
            for nd in tr.leaf_node_iter():
                ll.append(X.chars(nd.taxon.label or "") if nd.taxon is not None else [])
                idx.append((ids.index(id(nd.taxon)) + 1) if (nd.taxon is not None and id(nd.taxon) in ids) else 0)
            leaves.append(ll)
        comps.append({"kind": "TREES", "nslabels": [X.chars(x.label or "") for x in ns._taxa], "taxa": [], "rows": [],
                      "leaves": leaves, "typed": True, "taxa_idx": idx})
    return comps


def build_dataset(dendropy, spec, rng):
    """spec: {"nss": [{"title": chars, "labels": [chars]}], "comps": [{"kind", "ns" (1-based), "title": chars, "type"?}]}"""
    ds = dendropy.DataSet()
    nss = []
    for n in spec["nss"]:
        ns = dendropy.TaxonNamespace([X.lab(l) for l in n["labels"]], label=(X.lab(n["title"]) or None))
        ds.add_taxon_namespace(ns)
        nss.append(ns)
    for k, c in enumerate(spec["comps"]):
        ns = nss[c["ns"] - 1]
        title = X.lab(c["title"]) or None
        if c["kind"] == "CHARACTERS":
            # several matrices of one data set: all of the same type for half of the cases, mixed otherwise
            tt = ["dna", "standard", "protein", "continuous", "rna"]
            t = c.get("type") or (tt[spec.get("variant", 0) % 5] if spec.get("variant", 0) % 2 == 0 else tt[(spec.get("variant", 0) + k) % 5])
            if c.get("subsets") and t in ("standard", "continuous"):
                t = "dna"          # a concatenated alignment (concatenation of standard matrices is a separate open finding)
            if c.get("neg"):
                t = "continuous"
            syms = X.full_symbols(t) if t != "continuous" else ["1/2", "-5/4", "3/1", "1/100000"]
            ncol = c.get("ncol", 3)
            am = {"type": t, "taxa": [X.chars(x.label) for x in ns],
                  "rows": [[syms[rng.randrange(len(syms))] for _ in range(ncol)] for _ in ns]}
            if c.get("neg"):     # tokens with '-': a negative value and a negative exponent
                am["rows"][0][0] = "-5/4"
                am["rows"][-1][-1] = "1/100000"
            if c.get("subsets"):
                cls = X.matrix_class(dendropy, t)
                kk = max(1, ncol // 2)
                halves = [(0, kk), (kk, ncol)] if ncol > kk else [(0, ncol)]
                m = cls.concatenate([X.build_from_dict(dendropy, {"type": t, "taxa": am["taxa"], "rows": [r[a:b] for r in am["rows"]]}, ns=ns)
                                     for a, b in halves])
            else:
                m = X.build_from_dict(dendropy, am, ns=ns)
            m.label = title
            ds.add_char_matrix(m)
        else:
            tl = dendropy.TreeList(taxon_namespace=ns, label=title)
            for _ in range(c.get("ntrees", 2)):
                tr = dendropy.Tree(taxon_namespace=ns)
                taxa = list(ns)
                rng.shuffle(taxa)
                taxa = taxa[:max(1, len(taxa) - rng.randrange(2))]
                if len(taxa) >= 3:
                    inner = tr.seed_node.new_child()
                    for x in taxa[:2]:
                        inner.new_child(taxon=x)
                    for x in taxa[2:]:
                        tr.seed_node.new_child(taxon=x)
                else:
                    for x in taxa:
                        tr.seed_node.new_child(taxon=x)
                tl.append(tr)
            ds.add_tree_list(tl)
    return ds


def dataset_round_trip(dendropy, ds, fmt, setting, evs, how=0):
    comps_in = project_components(ds)
    if any(c == "" for comp in comps_in for r in comp["rows"] for c in r):
        return None          # a matrix with undefined cells is not a matrix of states: outside the writers' precondition
    nstitles = [X.chars(ns.label or "") for ns in ds.taxon_namespaces]
    kw = {}
    if fmt == "nexus":
        if setting == "True":
            kw["suppress_block_titles"] = True
        elif setting == "False":
            kw["suppress_block_titles"] = False
        elif how % 2:
            kw["suppress_block_titles"] = None
    text, wraised, ds2, rraised = None, "", None, ""
    try:
        with warnings.catch_warnings():
            warnings.simplefilter("ignore")
            text = ds.as_string(schema=fmt, **kw)
    except Exception as ex:
        wraised = _exc(ex)
    blocks = None
    if text is not None:
        try:
            blocks = X.project_nexus_blocks(text) if fmt == "nexus" else X.project_nexml_blocks(text)
        except Exception:
            blocks = None
        try:
            ds2 = dendropy.DataSet.get(data=text, schema=fmt)
        except Exception as ex:
            rraised = _exc(ex)
    evs.append({"action": "DataSet", "fmt": fmt, "setting": setting, "nns": len(ds.taxon_namespaces), "nstitles": nstitles,
                "comps_in": comps_in, "wraised": wraised, "blocks_ok": blocks is not None, "blocks": blocks or [],
                "rraised": rraised, "comps_out": project_components(ds2) if ds2 is not None else []})
    return ds2


# ----------------------------------------------------------------------------- random inputs
CONT_POOL = [0.0, 1.0, -1.0, 0.5, -1.25, 3.0, 0.1, 2.5e-06, 1e-05, 123456.789, -0.001, 1e+16, 6.02e+23, 1.5e-300, 7.0, 0.3333333333333333,
             2.718281828459045, -1e-10, 42.0, 1e-07]
PLAIN = "abcdefghijklmnopqrstuvwxyzABCDEFGHIJKLMNOPQRSTUVWXYZ0123456789_.-"
PUNCT = "!#$%()*+,-./:;=?@[]^_`{|}~' "
PUNCT_TREES = "!#$%()*+,-./:;?@[]^_`{|}~' "        # labels that also appear in tree statements: '=' and '\\' are C02's open finding
XMLSP = "\"<&>\\"


def random_labels(rng, n, style):
    out, seen = [], set()
    while len(out) < n:
        k = len(out)
        if style == "plain":
            s = "".join(rng.choice(PLAIN) for _ in range(rng.randint(1, 9)))
            if s[0] in "_.-" or s[-1] in "_.-":
                s = "a" + s + "b"
            s = s[:10]
        elif style == "numeric":
            # numerals that are NOT the taxon's own 1-based position (row labels are labels, never taxon numbers)
            s = str(rng.choice([2, 3, 1, 10, 4, 7, 12, 5, 100, 6, 8, 9, 11]))
            if s == str(k + 1) and n > 1:
                continue
        elif style == "long":
            s = "L%02d" % k + "".join(rng.choice(PLAIN[:52]) for _ in range(rng.randint(8, 17)))
        elif style == "space":
            s = "s%d" % k + " " + "".join(rng.choice(PLAIN[:52]) for _ in range(rng.randint(1, 4)))
            if rng.random() < 0.5:
                s += " " + rng.choice(PLAIN[:52])
            s = s[:10].rstrip()
        else:
            pool = PUNCT_TREES if style == "punct_trees" else PUNCT + (XMLSP if style == "xml" else "")
            body = "".join(rng.choice(pool + PLAIN[:10]) for _ in range(rng.randint(1, 6)))
            body = " ".join(body.split())          # single internal spaces only
            if style == "xml" and not any(c in XMLSP for c in body):
                body += rng.choice(XMLSP)
            s = "p%d" % k + body + "z"
        if s.lower() in seen or not s or s != s.strip():
            continue
        seen.add(s.lower())
        out.append(s)
    return out


def label_ok(style, fmt, lay):
    if style in ("plain", "long", "numeric"):
        return True
    if style == "space":
        return fmt in ("nexus", "nexml", "fasta") or (fmt == "phylip" and (lay.get("strict") or lay.get("multispace")))
    return fmt in ("nexus", "nexml")


def random_matrix(rng, t, style, nt=None, nc=None):
    nt = nt or rng.choice([1, 2, 3, 4, 5, 7, 12])
    nc = nc or rng.choice([1, 2, 3, 10, 57, 58, 59, 69, 70, 71, 100, 139, 140, 141, 150])
    if t == "continuous":
        nc = min(nc, 40)
        rows = [[X.ratstr(rng.choice(CONT_POOL)) for _ in range(nc)] for _ in range(nt)]
    else:
        syms = X.full_symbols(t)
        rows = [[rng.choice(syms) for _ in range(nc)] for _ in range(nt)]
    return {"type": t, "taxa": [X.chars(s) for s in random_labels(rng, nt, style)], "rows": rows}


def random_source_layout(rng, fmt, t, nc, style):
    if fmt == "phylip":
        strict = rng.random() < 0.4
        lay = {"strict": strict, "page": rng.choice([0, 0, 1 if nc <= 40 else 9, 7, 10, max(1, nc // 2), nc, nc + 3]),
               "multispace": (not strict) and (style == "space" or rng.random() < 0.3)}
    elif fmt == "fasta":
        lay = {"wrap": rng.choice([0, 1 if nc <= 40 else 9, 7, 60, 70, nc]), "spaces": rng.choice([0, 3, 3, 10]), "lower": rng.random() < 0.3}
    elif fmt == "nexus":
        lay = {"page": rng.choice([0, 0, 1 if nc <= 40 else 9, 7, max(1, nc // 2), nc, nc + 3]), "match": rng.random() < 0.4, "lower": rng.random() < 0.3}
    else:
        # cells out of column order only for discrete data (the continuous reader appends cells in document order;
        # the writers never emit such documents: outside the property)
        lay = {"seqs": rng.random() < 0.4, "shuffle_ids": rng.random() < 0.5, "reverse_cells": rng.random() < 0.6 and t != "continuous",
               "lower": rng.random() < 0.2}
    return lay


def random_writer_layout(rng, fmt, style):
    if fmt == "phylip":
        strict = rng.random() < 0.4
        return {"strict": strict, "multispace": (not strict) and (style == "space" or rng.random() < 0.3)}
    if fmt == "fasta":
        return {"nowrap": rng.random() < 0.3}
    if fmt == "nexus":
        return {"simple": rng.random() < 0.3}
    return {"seqs": rng.random() < 0.4}


# ----------------------------------------------------------------------------- cases
def run_case(case):
    import dendropy
    rng = random.Random(case.get("seed", 0))
    evs = []
    tmpdir = tempfile.mkdtemp(prefix="c09_", dir="/tmp")
    try:
        with warnings.catch_warnings():
            warnings.simplefilter("ignore")
            kind = case["kind"]
            if kind == "model_matrix":
                _model_matrix(dendropy, case, rng, tmpdir, evs)
            elif kind == "random_matrix":
                _random_matrix(dendropy, case, rng, tmpdir, evs)
            elif kind == "model_dataset":
                ds = build_dataset(dendropy, dict(case["ds"], variant=case.get("seed", 0)), rng)
                ds2 = dataset_round_trip(dendropy, ds, case["f"], case["setting"], evs, how=case.get("seed", 0))
                if ds2 is not None and case.get("leg2"):
                    other = "nexml" if case["f"] == "nexus" else "nexus"
                    dataset_round_trip(dendropy, ds2, other, "None", evs)
            elif kind == "random_dataset":
                _random_dataset(dendropy, case, rng, evs)
            else:
                raise core.MachineryError("unknown case kind %r" % kind)
    finally:
        shutil.rmtree(tmpdir, ignore_errors=True)
    return evs


def _model_matrix(dendropy, case, rng, tmpdir, evs):
    am = case["m"]
    t = am["type"]
    src = case["src"]
    if case["route"].startswith("observed_"):
        src = dict(src, variant=case.get("seed", 0))
    M = build(dendropy, am, case["route"], src, evs, model_layout=True)
    if M is None:
        return
    for k, (fmt, lay) in enumerate(case["targets"]):
        api = APIS[(case.get("seed", 0) + k) % len(APIS)]
        M1 = round_trip(dendropy, M, t, case["route"], fmt, lay, api, tmpdir, evs)
        if M1 is not None and case.get("pairs"):
            for g, glay in case["pair_targets"]:
                round_trip(dendropy, M1, t, "parsed_" + fmt, g, glay, "matrix", tmpdir, evs)
    if case.get("convert"):
        for (sf, slay, g, glay) in case["convert"]:
            convert(dendropy, am, sf, slay, g, glay, tmpdir, evs)


def _random_matrix(dendropy, case, rng, tmpdir, evs):
    t = case["type"]
    style = case["style"]
    am = random_matrix(rng, t, style, nt=case.get("nt"), nc=case.get("nc"))
    nc = len(am["rows"][0])
    fmts = [f for f in X.FORMATS if t in X.SUPPORTS[f]]
    route = case["route"]
    src = {}
    if route.startswith("parsed_"):
        sf = route[len("parsed_"):]
        if t not in X.SUPPORTS[sf]:
            route, src = "from_dict", {}
        else:
            for _ in range(20):
                src = random_source_layout(rng, sf, t, nc, style)
                if label_ok(style, sf, src):
                    break
            else:
                route, src = "from_dict", {}
    if route == "exported_typed" and t not in X.SUPPORTS["nexml"]:
        route = "exported"
    if route.startswith("observed_"):
        src = {"variant": rng.randrange(1000)}
    if route.startswith("typed_"):
        if t not in X.SUPPORTS["nexml"]:
            route = "concatenated"
        else:
            src = {"seqs": rng.random() < 0.3}
    M = build(dendropy, am, route, src, evs, model_layout=False)
    if M is None:
        return
    # every format that carries the type, then a chain of conversions f -> g -> h
    for fmt in fmts:
        lay = random_writer_layout(rng, fmt, style)
        if not label_ok(style, fmt, lay):
            continue
        M1 = round_trip(dendropy, M, t, route, fmt, lay, rng.choice(APIS), tmpdir, evs)
        cur, curfmt = M1, fmt
        for _ in range(2):
            if cur is None:
                break
            g = rng.choice(fmts)
            glay = random_writer_layout(rng, g, style)
            if not label_ok(style, g, glay):
                continue
            cur, curfmt = round_trip(dendropy, cur, t, "parsed_" + curfmt, g, glay, rng.choice(APIS), tmpdir, evs), g
    # dendropy-format conversion from a source document
    if style in ("plain",):
        sf = rng.choice(fmts)
        g = rng.choice(fmts)
        slay = random_source_layout(rng, sf, t, nc, style)
        for k in ("lower", "spaces", "shuffle_ids", "reverse_cells"):
            slay.pop(k, None)
        if sf == "nexml":
            slay = {"seqs": slay.get("seqs", False)}
        convert(dendropy, am, sf, slay, g, {"strict": rng.random() < 0.3} if g == "phylip" else {}, tmpdir, evs)


TITLE_POOL = ["", "x", "X", "x", "y", "taxa one", "x.1", "a'b", "T_1", "Y"]


def _random_dataset(dendropy, case, rng, evs):
    nns = rng.randint(1, 3)
    titles = [rng.choice(TITLE_POOL) for _ in range(nns)]
    if not case.get("allow_case_variants"):
        seen = {}
        for i, s in enumerate(titles):
            if s and s.upper() in seen and seen[s.upper()] != s:
                titles[i] = seen[s.upper()]
            elif s:
                seen[s.upper()] = s
    style = rng.choice(["plain", "space", "punct_trees"])
    nss = []
    for i in range(nns):
        labels = random_labels(rng, rng.randint(2, 5), style)
        if rng.random() < 0.3 and i > 0:
            labels = [X.lab(l) for l in nss[0]["labels"]][:len(labels)] + labels[len(nss[0]["labels"]):]
            labels = list(dict.fromkeys(labels))
        nss.append({"title": X.chars(titles[i]), "labels": [X.chars(s) for s in labels]})
    comps = []
    for _ in range(rng.randint(1, 4)):
        comps.append({"kind": rng.choice(["CHARACTERS", "TREES"]), "ns": rng.randint(1, nns),
                      "title": X.chars(rng.choice(TITLE_POOL[:6])), "type": rng.choice(["dna", "dna", "protein", "standard", "continuous", "rna"]),
                      "ncol": rng.randint(1, 6), "ntrees": rng.randint(1, 3), "subsets": rng.random() < 0.3})
    if case.get("subsets_first"):
        # a concatenated alignment first, continuous data with negative values / exponents later
        comps.insert(0, {"kind": "CHARACTERS", "ns": rng.randint(1, nns), "title": X.chars(""), "type": rng.choice(["dna", "protein", "rna"]),
                         "ncol": rng.randint(2, 6), "subsets": True})
        comps.append({"kind": "CHARACTERS", "ns": rng.randint(1, nns), "title": X.chars(""), "ncol": rng.randint(1, 4), "neg": True})
        for c in comps[1:-1]:
            c["subsets"] = False
    ds = build_dataset(dendropy, {"nss": nss, "comps": comps}, rng)
    fmt = rng.choice(["nexus", "nexus", "nexml"])
    setting = rng.choice(["None", "False", "True"]) if fmt == "nexus" else "None"
    ds2 = dataset_round_trip(dendropy, ds, fmt, setting, evs, how=rng.randrange(2))
    if ds2 is not None:
        dataset_round_trip(dendropy, ds2, "nexml" if fmt == "nexus" else "nexus", "None", evs)


# ----------------------------------------------------------------------------- run
def _lay_from_model(w):
    return {"strict": bool(w["strict"]), "page": int(w["page"]), "match": bool(w["match"]), "wrap": int(w["wrap"]),
            "seqs": bool(w["seqs"]), "multispace": bool(w["multispace"])}


def model_cases(ctx, cfg):
    dump = os.path.join(ctx.work, "c09.dump")
    ctx.model("MC_CharIO", cfg, extra=("-dump", dump))
    states = tlaval.read_dump(dump)
    os.remove(dump)
    groups = {}
    order = []
    dcases = []
    for st in states:
        c = st["c"]
        if c["kind"] == "matrix":
            m = c["m"]
            key = core.dumps([m, c["ls"], c["route"], c["src"]])
            g = groups.get(key)
            if g is None:
                g = {"kind": "model_matrix", "m": {"type": m["type"], "taxa": [list(l) for l in m["taxa"]], "rows": [list(r) for r in m["rows"]]},
                     "ls": c["ls"], "route": c["route"], "src": _lay_from_model(c["src"]), "targets": []}
                groups[key] = g
                order.append(key)
            g["targets"].append((c["f"], _lay_from_model(c["w"])))
        elif c["kind"] == "dataset":
            ds = c["ds"]
            dcases.append({"kind": "model_dataset", "f": c["f"], "setting": c["setting"],
                           "ds": {"nss": [{"title": list(n["title"]), "labels": [list(l) for l in n["labels"]]} for n in ds["nss"]],
                                  "comps": [{"kind": k["kind"], "ns": k["ns"], "title": list(k["title"]), "subsets": bool(k["subsets"]),
                                             "neg": bool(k["neg"])} for k in ds["comps"]]}})
    mcases = []
    for i, key in enumerate(sorted(order)):
        g = groups[key]
        g["targets"].sort(key=core.dumps)
        g["seed"] = ctx.seed * 1000003 + i
        mcases.append(g)
    dcases.sort(key=core.dumps)
    for i, d in enumerate(dcases):
        d["seed"] = ctx.seed * 1000003 + i
        d["leg2"] = (i % 3 == 0)
    return mcases, dcases, len(states)


def add_pairs_and_converts(mcases, quick):
    """pair conversions f -> g on the replayed cases (all of them for from_dict, a rotating part of the others),
    and dendropy-format conversions from source documents"""
    for i, g in enumerate(mcases):
        t = g["m"]["type"]
        fmts = [f for f in X.FORMATS if t in X.SUPPORTS[f]]
        if g["route"] == "from_dict" or (not quick and i % 3 == 0) or (quick and i % 11 == 0):
            g["pairs"] = True
            pt = []
            for f in fmts:
                lay = dict(LAY0)
                if f == "phylip" and g["ls"] == "space":
                    lay["multispace"] = True
                if g["ls"] in ("punct", "xml") and f not in ("nexus", "nexml"):
                    continue
                pt.append((f, lay))
            g["pair_targets"] = pt
        if g["ls"] == "plain" and g["route"].startswith("parsed_") and (i % (7 if quick else 2) == 0):
            sf = g["route"][len("parsed_"):]
            slay = dict(g["src"])
            g["convert"] = [(sf, slay, f, dict(LAY0, strict=(i % 2 == 0 and f == "phylip"))) for f in fmts]
    return mcases


def random_cases(ctx, n_mat, n_ds):
    rng = random.Random(ctx.seed * 7919 + 9)
    routes = ["from_dict", "concatenated", "exported", "exported_typed", "parsed_nexus", "parsed_phylip", "parsed_fasta", "parsed_nexml",
              "typed_self_concatenated", "typed_self_extended", "typed_aba", "observed_then_rows", "observed_then_columns"]
    styles = ["plain", "plain", "long", "space", "punct", "xml", "numeric"]
    out = []
    for i in range(n_mat):
        t = X.TYPES[i % len(X.TYPES)]
        c = {"kind": "random_matrix", "seed": ctx.seed * 1000003 + 500000 + i, "type": t,
             "route": routes[(i // len(X.TYPES)) % len(routes)], "style": styles[(i // 3) % len(styles)]}
        if c["style"] == "xml":          # XML-special labels: the label rule of the quoting formats, on simple routes
            c["route"] = ["from_dict", "parsed_nexus", "parsed_nexml"][i % 3]
        if i % 10 == 0:
            c["nt"] = 1
        elif i % 10 == 1:
            c["nc"] = 1
        out.append(c)
    for i in range(n_ds):
        out.append({"kind": "random_dataset", "seed": ctx.seed * 1000003 + 900000 + i, "allow_case_variants": i % 4 == 0,
                    "subsets_first": i % 3 == 1})
    return out


def _collect_drift(ctx):
    for fn in glob.glob(os.path.join(ctx.work, "trace_Trace_CharIO_*.verdict.json")):
        try:
            with open(fn) as f:
                d = json.load(f)
        except Exception:
            continue
        for k in d.get("drift", []):
            ctx.drift[k] = ctx.drift.get(k, 0) + 1


def _machinery_guard(ctx):
    mach = [v for v in ctx.verdicts if v["clause"] == "C09.Machinery"]
    if mach:
        v = mach[0]
        raise core.MachineryError("harness-rendered source rejected by the reference reader / differs from Write_f: %s\n%s"
                                  % (v.get("class"), core.dumps(v["event"])[:1500]))


def _evidence(ctx, driven):
    for case, evs in driven:
        for e in evs:
            if e["action"] in ("RoundTrip", "Convert"):
                m = e.get("min") or {}
                rows = m.get("rows", [])
                if e["action"] == "Convert" or (len(rows) * (len(rows[0]) if rows else 0) >= 2):
                    ctx.add_nontrivial([e["action"], e["fmt"], e["ro"], e["type"], e["route"], e["api"], m.get("taxa"), rows,
                                        e.get("sstream") if e["action"] == "Convert" else 0])
            elif e["action"] == "Parse":
                ctx.add_nontrivial(["Parse", e["fmt"], e["layout"], e["type"], e["stream"]])
            elif e["action"] == "DataSet" and e["nns"] >= 2:
                ctx.add_nontrivial(["DataSet", e["fmt"], e["setting"], e["nstitles"], [(c["kind"], c["nslabels"]) for c in e["comps_in"]]])


def run(ctx):
    q = ctx.quick
    # 1. TLC checks the reference design on the bounded domain ...
    if not q:
        ctx.model("MC_CharIO", "MC_CharIO_wide_thorough.cfg")
    # ... and finds the shipped rules violating the property (non-vacuity)
    ctx.model("MC_CharIO", "AsShipped_CharIO.cfg", expect_violation="RoundTrip", count=False, workers=4)
    ctx.model("MC_CharIO", "AsShipped_CharIO_titles.cfg", expect_violation="NamespaceOfEachComponent", count=False, workers=4)
    ctx.model("MC_CharIO", "AsShipped_CharIO_titlecase.cfg", expect_violation="NamespaceOfEachComponent", count=False, workers=4)
    ctx.model("MC_CharIO", "AsShipped_CharIO_setslink.cfg", expect_violation="NamespaceOfEachComponent", count=False, workers=4)
    ctx.model("MC_CharIO", "Regress_CharIO_hyphen.cfg", expect_violation="NamespaceOfEachComponent", count=False, workers=4)
    # 2. spec -> code: every dumped case replayed on the real classes
    mcases, dcases, nstates = model_cases(ctx, "MC_CharIO_quick.cfg" if q else "MC_CharIO_thorough.cfg")
    add_pairs_and_converts(mcases, q)
    # 3. seeded random drivers: larger matrices over the full symbol sets, random data sets
    rnd = random_cases(ctx, 240 if q else 3200, 120 if q else 1600)
    driven = ctx.drive(mcases + dcases + rnd, run_case, chunksize=16)
    ctx.judge("Trace_CharIO", driven, batch=1500 if q else 4000, env=JUDGE_ENV)
    _collect_drift(ctx)
    _machinery_guard(ctx)
    _evidence(ctx, driven)
    ntargets = sum(len(g["targets"]) for g in mcases)
    ctx.rule = ("cases = every state of TLC's dump of MC_CharIO (%d states: %d (matrix, route, source layout) groups with %d "
                "(format, writer option) targets, %d data-set cases) replayed on the real classes, + %d seeded random matrices "
                "(full symbol sets, 1-12 taxa, up to 150 columns, all routes, conversion chains) + random data sets; "
                "distinct_nontrivial = distinct (action, format variant, type, route, api, matrix content) with at least two cells, "
                "distinct source documents parsed, distinct multi-namespace data sets"
                % (nstates, len(mcases), ntargets, len(dcases), len([c for c in rnd if c["kind"] == "random_matrix"])))
    ctx.exhaustive = True
    ctx.extra["exhaustive_domain"] = ("all matrices of the shapes/symbol classes of MC_CharIO_%s.cfg (Dims) x every construction route "
                                      "x every source layout x every format/writer option that carries the type; all data sets with <= %d "
                                      "namespaces and <= %d components over the title pool x every suppress_block_titles setting"
                                      % (ctx.tier, 3, 2 if q else 3))
    ctx.extra["model_states_replayed"] = nstates
    ctx.assumptions.append("type x format support is taken from the library: NEXUS carries restriction/infinite sites only as STANDARD "
                           "(a type conversion, outside the property); the NeXML writer rejects nucleotide and infinite sites; FASTA has no "
                           "continuous data; symbol-less ambiguity sets are outside the property")
    ctx.assumptions.append("continuous values are compared as exact rationals of the doubles (literal n/d strings), TLC compares literals")
    for case, evs in driven[:1] + driven[len(mcases) + len(dcases):len(mcases) + len(dcases) + 1] + driven[-1:]:
        if evs:
            e = dict(evs[-1])
            for k in ("stream", "sstream"):
                if k in e:
                    e[k] = "(omitted)"
            ctx.add_sample({"case": {k: v for k, v in case.items() if k not in ("targets", "pair_targets", "convert")}, "event": e})


def replay(ctx, rec):
    driven = ctx.drive([rec["case"]], run_case, parallel=False)
    ctx.judge("Trace_CharIO", driven, env=JUDGE_ENV)
    _machinery_guard(ctx)
    ctx.rule = "replay of one recorded case"
    ctx.add_sample({"case": {k: v for k, v in rec["case"].items() if k not in ("targets", "pair_targets", "convert")}})
    ctx.nontrivial.update(["replay", "replay2"])
