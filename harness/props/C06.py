"""C06 - tree-sample summaries are independent of partitioning, arrival order and scheduling.

Sequential part  spec/TreeArrayMerge.tla (operators), MC_TreeArrayMerge (TLC: every partition of a sample
  into <= 3 sub-arrays, every insertion index, every arrival order and kind of merge, merges and additions
  interleaved), Trace_TreeArrayMerge (TLC judges every logged call on real TreeArrays).
Concurrent part  spec/SumTreesPar.tla (PlusCal: Main, feeder thread, workers), MC_SumTreesPar (TLC: all
  schedules), Trace_SumTreesPar (TLC judges every real run).  The schedules of the TLC state graph are
  replayed through the REAL TreeProcessor.parallel_analyze_trees / TreeAnalysisWorker.run /
  TreeArray.update with the baton scheduler of vlib/x_c06.py (thread based, pickle round-tripping queue
  shims installed from here; /repo is not changed) and compared, by TLC, with serial_analyze_trees on the
  same temporary files; a few runs with real processes cross-check the shims.
The Python side has no oracle: it builds trees and files, calls the library, projects what it sees.
"""
import os
import pickle
import random
import shutil
import tempfile
import threading
import time

from vlib import core, tlaval, proj, build
from vlib import x_c06 as X

ID = "C06"
MERGE_ACTION = {"update": "Update", "extend": "Extend", "iadd": "IAdd", "add": "Add"}
DEFAULT_SET = {"iel": False, "ina": True, "utw": True}


# =============================================================================== sequential part
def _new_array(dendropy, ns, r, explicit, st):
    return dendropy.TreeArray(taxon_namespace=ns, is_rooted_trees=X.rooted_arg(r) if explicit else None,
                              ignore_edge_lengths=st["iel"], ignore_node_ages=st["ina"], use_tree_weights=st["utw"])


def _call(fn):
    try:
        return "", fn()
    except Exception as ex:         # the outcome is logged and judged
        return type(ex).__name__, None


def seq_world(dendropy, case):
    """real trees (one object per sample position) and fresh arrays; returns the Setup event too"""
    ntax = case["ntax"]
    ns, taxa = build.make_namespace(dendropy, ntax)
    trees = []
    for t in case["trees"]:
        tr = build.build_tree(dendropy, t["nested"], ns, taxa, rooted=X.rooted_arg(case["r"]))
        tr.weight = X.weight_arg(t["w"])
        trees.append(tr)
    arrs = [_new_array(dendropy, ns, case["r"], e, case["set"]) for e in case["expl"]]
    # reference route of the property: the whole sample added one tree at a time to one array
    ref = _new_array(dendropy, ns, case["r"], False, case["set"])
    for tr in trees:
        ref.add_tree(tr)
    rq = X.queries(ref)
    setup = {"action": "Setup", "ref": {"raised": rq["cons"]["raised"], "g": rq["cons"]["g"],
                                        "lowraised": rq["conslow"]["raised"], "lowg": rq["conslow"]["g"]}, "trees": [proj.tree_graph(t) for t in trees], "w": [t["w"] for t in case["trees"]],
             "set": case["set"], "r": case["r"], "arrs": [X.proj_array(a) for a in arrs]}
    return ns, trees, arrs, setup


def seq_add(arrs, trees, k, i, t, api, updated):
    a = arrs[k - 1]
    tree = trees[t - 1]
    pre = X.proj_array(a)
    if updated:
        tree.encode_bipartitions()
    if api == "add_tree":
        raised, res = _call(lambda: a.add_tree(tree, is_bipartitions_updated=updated))
    elif api == "append":
        raised, res = _call(lambda: a.append(tree, is_bipartitions_updated=updated))
    else:
        raised, res = _call(lambda: a.insert(i, tree, is_bipartitions_updated=updated))
    idx = res[0] if isinstance(res, tuple) and res and isinstance(res[0], int) else -1
    return {"action": "AddTree", "api": api, "k": k, "i": i if api == "insert" else -1, "t": t, "pre": pre,
            "post": X.proj_array(a), "raised": raised, "res": idx}


def seq_merge(arrs, op, k, j):
    a, b = arrs[k - 1], arrs[j - 1]
    pre, prej = X.proj_array(a), X.proj_array(b)
    if op == "update":
        raised, res = _call(lambda: a.update(b))
    elif op == "extend":
        raised, res = _call(lambda: a.extend(b))
    elif op == "iadd":
        def f():
            x = a
            x += b
            return x
        raised, res = _call(f)
        if raised == "" and res is not a:
            arrs[k - 1] = res
    else:
        raised, res = _call(lambda: a + b)
        if raised == "":
            arrs[k - 1] = res
    # olda: the left operand afterwards (a + b must leave a as it was; for the in-place merges it is the result itself)
    return {"action": MERGE_ACTION[op], "k": k, "j": j, "pre": pre, "prej": prej, "post": X.proj_array(arrs[k - 1]),
            "postj": X.proj_array(b), "olda": X.proj_array(a), "raised": raised}


def seq_query(arrs, k, sid):
    a = arrs[k - 1]
    ev = {"action": "Query", "k": k, "from": sid, "st": X.proj_array(a)}
    ev.update(X.queries(a))
    return ev


class SeqWorld(object):
    """real objects of one recorded state: trees, arrays, which arrays are still in use, next tree to add"""

    def __init__(self, ns, trees, arrs, specs=None, r=0):
        self.ns, self.trees, self.arrs = ns, trees, arrs
        self.specs, self.r = specs, r           # nested form and weight of every sample tree, rooting token: for text sources
        self.labels = [t.label for t in ns]
        self.alive = set(range(1, len(arrs) + 1))
        self.nxt = 1
        self.q = set()          # arrays whose summaries have been asked for: asked again after every later call on them

    def clone(self):
        # one pickle round trip of everything keeps the sharing of the namespace between trees and arrays
        ns, trees, arrs = pickle.loads(pickle.dumps((self.ns, self.trees, self.arrs), pickle.HIGHEST_PROTOCOL))
        w = SeqWorld(ns, trees, arrs, self.specs, self.r)
        w.alive, w.nxt, w.q = set(self.alive), self.nxt, set(self.q)
        return w

    def read(self, k, route, sizes, offset):
        """the next sum(sizes) sample trees arrive as text sources (files, unnamed streams, strings) of the given sizes;
        the first `offset` trees of every source are burn-in"""
        import io
        a = self.arrs[k - 1]
        srcs, texts = [], []
        for n in sizes:
            ids = list(range(self.nxt, min(self.nxt + n, len(self.trees) + 1)))
            self.nxt += len(ids)
            if ids:
                srcs.append(ids)
                texts.append("".join(X.newick_of_nested(self.specs[t - 1]["nested"], self.r, self.specs[t - 1]["w"], self.labels) + "\n" for t in ids))
        if route == "files-repeat" and srcs:      # the same path listed twice, consecutively
            srcs, texts = [srcs[0], srcs[0]] + srcs[1:], [texts[0]] + texts[1:]
        pre = X.proj_array(a)
        kw = {"schema": "newick", "tree_offset": offset, "store_tree_weights": True}
        tmpdir = tempfile.mkdtemp(prefix="c06_")
        try:
            paths = []
            for h, txt in enumerate(texts):
                paths.append(os.path.join(tmpdir, "s%d.nwk" % h))
                with open(paths[-1], "w") as fh:
                    fh.write(txt)
            if route == "files-paths":
                raised, _ = _call(lambda: a.read_from_files(files=list(paths), **kw))
            elif route == "files-repeat":
                raised, _ = _call(lambda: a.read_from_files(files=[paths[0]] + list(paths), **kw))
            elif route == "files-streams":
                raised, _ = _call(lambda: a.read_from_files(files=[io.StringIO(t) for t in texts], **kw))
            else:
                def each():
                    for pth, txt in zip(paths, texts):
                        if route == "read-path":
                            a.read(path=pth, **kw)
                        elif route == "read-stream":
                            a.read(file=io.StringIO(txt), **kw)
                        else:
                            a.read(data=txt, **kw)
                raised, _ = _call(each)
        finally:
            shutil.rmtree(tmpdir, ignore_errors=True)
        return {"action": "Read", "route": route, "k": k, "offset": offset, "srcs": srcs, "pre": pre,
                "post": X.proj_array(a), "raised": raised}

    def step(self, op, rng, sid, newsid, query=True, warm=False):
        """one model transition on the real objects -> events (the call, then the queries the history asks for).
        Returns (events, state id afterwards)."""
        arrs = self.arrs
        if op[0] == "Query":
            k = op[1]
            if len(arrs[k - 1]._tree_split_bitmasks) == 0:
                return [], sid          # (a random history may ask after a merge that failed: nothing to summarise)
            self.q.add(k)
            if query:
                return [seq_query(arrs, k, sid)], sid
            X.queries(arrs[k - 1])                  # part of the history of this state, judged where it was a fan transition
            return [], sid
        if op[0] in ("Read", "ReadFiles"):
            k = op[1]
            if op[0] == "ReadFiles":        # model transition: everything not yet added, as sources of two trees
                left = len(self.trees) - self.nxt + 1
                sizes, offset = [2] * (left // 2) + [1] * (left % 2), op[2]
                route = rng.choice(("files-paths", "files-streams", "read-path", "read-stream", "read-data"))
            else:
                route, sizes, offset = op[2], op[3], op[4]
            ev = self.read(k, route, sizes, offset)
            ev["from"], ev["to"] = sid, newsid
            ev["others"] = [[o, X.proj_array(arrs[o - 1])] for o in range(1, len(arrs) + 1)
                            if o != k and (o not in self.alive or len(arrs[o - 1]._tree_split_bitmasks) > 0)]
            evs = [ev]
            if query and len(arrs[k - 1]._tree_split_bitmasks) > 0 and k in self.q:
                evs.append(seq_query(arrs, k, newsid))
            return evs, newsid
        if op[0] == "AddTree":
            k, i = op[1], op[2]
            n = len(arrs[k - 1]._tree_split_bitmasks)
            i = min(i, n)           # a merge that failed left the array shorter than the generator assumed
            api = "insert" if (i < n or rng.random() < 0.34) else rng.choice(("add_tree", "append"))
            ev = seq_add(arrs, self.trees, k, i, self.nxt, api, rng.random() < 0.3)
            self.nxt += 1
            involved = (k,)
        else:
            kind, k, j = op[1], op[2], op[3]
            if warm and len(arrs[k - 1]._tree_split_bitmasks) > 0:
                X.queries(arrs[k - 1])      # history "query, merge, query": the summaries were looked at before the merge
            ev = seq_merge(arrs, kind, k, j)
            if not (len(op) > 4 and op[4] == "keep"):
                self.alive.discard(j)       # "keep": the same operand object is merged again later (another arrival order)
                self.q.discard(j)
            if kind == "add" and ev["raised"] == "":
                self.q.discard(k)
            involved = (k, j)
        ev["from"], ev["to"] = sid, newsid
        # every other array - the operands of earlier merges included - must be exactly what it was
        # (arrays that never held a tree and are still unused have nothing that could change)
        ev["others"] = [[o, X.proj_array(arrs[o - 1])] for o in range(1, len(arrs) + 1)
                        if o not in involved and (o not in self.alive or len(arrs[o - 1]._tree_split_bitmasks) > 0)]
        evs = [ev]
        if query and len(arrs[k - 1]._tree_split_bitmasks) > 0 and (op[0] != "AddTree" or k in self.q):
            evs.append(seq_query(arrs, k, newsid))       # after any merge; after an addition to an array that was queried before
        return evs, newsid


def run_seq(case):
    """prefix: operations executed one after the other; fan: operations each executed on its own copy of the
    state reached by the prefix (one real execution per outgoing transition of a model state)"""
    import dendropy
    rng = random.Random(case["seed"])
    ns, trees, arrs, setup = seq_world(dendropy, case)
    w = SeqWorld(ns, trees, arrs, case["trees"], case["r"])
    evs = [setup]
    sid = 1
    top = 1
    fan = case.get("fan", [])
    for op in case["ops"]:
        # with a fan, the prefix is another case's fan transition: it was queried there
        e, sid = w.step(op, rng, sid, top + 1, query=not fan)
        top = max(top, sid)
        evs.extend(e)
    for op in fan:
        e, s2 = w.clone().step(op, rng, sid, top + 1, warm=rng.random() < 0.5)
        top = max(top, s2)
        evs.extend(e)
    if not fan:
        last = case["ops"][-1] if case["ops"] else None
        for k in sorted(w.alive):
            if len(w.arrs[k - 1]._tree_split_bitmasks) > 0 and not (last and last[0] == "Merge" and last[2] == k):
                evs.append(seq_query(w.arrs, k, sid))
    return evs


# ---- random samples, larger than the model's
def _ultrametric(nested, rng):
    """integer node heights -> edge lengths (exactly representable), for node ages"""
    hs = {}
    def height(nd):
        if id(nd) not in hs:
            hs[id(nd)] = (max(height(k) for k in nd[3]) + rng.randint(1, 2)) if nd[3] else 0
        return hs[id(nd)]
    def rec(nd):
        for k in nd[3]:
            k[2] = height(nd) - height(k)
            rec(k)
    nested[2] = None
    rec(nested)
    return nested


def random_tree(rng, ntax, r, ultrametric):
    nested = build.random_parents(rng, ntax, p_poly=0.25, p_unif=0.0)
    if r != 1:
        # unrooted samples: no basal bifurcation (it would be collapsed while encoding)
        while len(nested[3]) == 2:
            big = [c for c in nested[3] if c[3]]
            if not big:
                break
            c = big[0]
            nested[3].remove(c)
            nested[3].extend(c[3])
    order = list(range(ntax))
    rng.shuffle(order)
    build.assign(nested, rng, order, lengths=(None, 0, 1, 2, 3))
    nested[2] = None
    if ultrametric:
        _ultrametric(nested, rng)
    return nested


def random_seq_case(seed, thorough):
    rng = random.Random(seed)
    r = rng.choice((0, 0, 1, 1, -1))
    ntax = rng.randint(5, 7)
    st = dict(DEFAULT_SET)
    mode = rng.random()
    if mode < 0.2:
        st["iel"] = True
    elif mode < 0.4 and r == 1:
        st["ina"] = False
    elif mode < 0.55:
        st["utw"] = False
    ntrees = rng.randint(3, 8 if thorough else 6)
    # a few topologies repeated, so that majorities and unique maximisers occur
    shapes = [random_tree(rng, ntax, r, not st["ina"]) for _ in range(rng.randint(1, 3))]
    trees = []
    for _ in range(ntrees):
        base = rng.choice(shapes)
        nested = _relength(base, rng, not st["ina"])
        # use_tree_weights=False is only exercised with unweighted trees (TreeArray does not hand the flag to its
        # SplitDistribution, so weighted trees would still be weighted in the counts: outside C06)
        trees.append({"nested": nested, "w": rng.choice((-1, -1, 1, 2, 4)) if st["utw"] else -1})
    narr = rng.randint(2, 4)
    expl = [False] * narr if r == -1 else [rng.random() < 0.5 for _ in range(narr)]
    if rng.random() < 0.5:
        expl = [expl[0]] * narr
    ops = []
    alive = list(range(1, narr + 1))
    sizes = dict((k, 0) for k in alive)
    left = ntrees
    kept = 0
    while left > 0 or len(alive) > 1:
        x = rng.random()
        if left > 1 and x < 0.12:
            # some of the next trees arrive as text sources with a burn-in
            k = rng.choice(alive)
            src = [rng.randint(1, 3) for _ in range(rng.randint(1, 3))]
            off = rng.choice((0, 1, 1, 2))
            route = rng.choice(("files-paths", "files-streams", "files-streams", "files-repeat", "read-path", "read-stream", "read-data"))
            ops.append(["Read", k, route, src, off])
            used = min(left, sum(src))
            sizes[k] += used            # an upper bound is enough for the generator (insert positions are clamped)
            left -= used
        elif left > 0 and (len(alive) == 1 or x < 0.5):
            k = rng.choice(alive)
            ops.append(["AddTree", k, rng.randint(0, sizes[k])])
            sizes[k] += 1
            left -= 1
        elif x < 0.62 and any(sizes[k] for k in alive):
            ops.append(["Query", rng.choice([k for k in alive if sizes[k]])])       # query, then more additions / merges
        elif len(alive) > 1:
            k, j = rng.sample(alive, 2)
            op = ["Merge", rng.choice(("update", "update", "extend", "iadd", "add")), k, j]
            sizes[k] += sizes[j]
            if kept < 2 and rng.random() < 0.35:
                op.append("keep")           # the same operand object arrives again elsewhere
                kept += 1
            else:
                alive.remove(j)
            ops.append(op)
    return {"kind": "seq", "src": "random", "seed": seed, "r": r, "ntax": ntax, "set": st, "trees": trees,
            "expl": expl, "ops": ops}


def _relength(nested, rng, ultrametric):
    def cp(nd):
        return [nd[0], nd[1], (None if nd[2] is None else rng.choice((0, 1, 2, 3))), [cp(k) for k in nd[3]]]
    c = cp(nested)
    c[2] = None
    if ultrametric:
        _ultrametric(c, rng)
    return c



# =============================================================================== concurrent part
STEP_PROC = {"Put": "main", "PutEnd": "main", "Launch": "main", "Coll": "main", "Flush": "feeder"}


def schedule_of_path(path):
    """TLC behaviour of SumTreesPar (one label = one real queue operation / Process.start) -> who moves next"""
    out = []
    for (a, args) in path:
        out.append(STEP_PROC[a] if a in STEP_PROC else "w%d" % args[0])
    return out


def _t1_first(nested):
    """child order is free: put the subtree holding taxon T1 first, so that the namespace SumTrees discovers from
    the first tree gives T1 bit 0 (the normalisation of unrooted splits refers to the lowest bit)"""
    def has(nd):
        return nd[1] == 0 or any(has(k) for k in nd[3])
    def rec(nd):
        nd[3].sort(key=lambda k: 0 if has(k) else 1)
        for k in nd[3]:
            rec(k)
    rec(nested)
    return nested


def _dated(nested, rng, tips):
    """edge lengths such that every node has one age, the leaves having the given tip ages (integers)"""
    hs = {}
    def height(nd):
        if id(nd) not in hs:
            hs[id(nd)] = (max(height(k) for k in nd[3]) + rng.randint(1, 2)) if nd[3] else tips[nd[1]]
        return hs[id(nd)]
    def rec(nd):
        for k in nd[3]:
            k[2] = height(nd) - height(k)
            rec(k)
    nested[2] = None
    rec(nested)
    return nested


def par_files(case, tmpdir):
    """temporary Newick files (written without any dendropy writer) and the trees that count after burn-in"""
    rng = random.Random(case["seed"])
    r, ntax = case["r"], 5
    labels = ["T%d" % (i + 1) for i in range(ntax)]
    burn = case.get("burn", 1 if any(sz == 0 for sz in case["sizes"][:case["F"]]) else 0)
    tips = case.get("tips")             # tip ages (SumTrees --tip-ages): node ages are summarised, trees are dated
    def fresh(base):
        c = _relength(base, rng, False)
        return _dated(c, rng, tips) if tips else c
    shapes = [random_tree(rng, ntax, r, False) for _ in range(2)]
    first = fresh(random_tree(rng, ntax, r, False))
    files, eff = [], []
    for f in range(case["F"]):
        if case.get("dup") and f > 0:
            # the same path listed again: the same trees count again (after the same burn-in)
            files.append(files[0])
            eff.extend(dict(t) for t in eff[:ndup])
            continue
        lines = []
        n = case["sizes"][f] * case["mult"] + burn
        for i in range(n):
            if i < burn:
                nested, w = first, -1       # burn-in tree: read by discover_taxa, skipped by the analysis
            else:
                nested = fresh(rng.choice(shapes))
                w = rng.choice((-1, 1, 2, 4)) if case["weights"] else -1
                eff.append({"nested": nested, "w": w})
            tok = r
            if case.get("poison") == [f + 1, i - burn + 1]:
                tok = 1 - r          # a tree of the other rooting: reading this file raises MixedRootingError
            if f == 0 and i == 0:
                _t1_first(nested)
            lines.append(X.newick_of_nested(nested, tok, w, labels))
        ndup = len(eff)
        path = os.path.join(tmpdir, "f%d.nwk" % (f + 1))
        with open(path, "w") as fh:
            fh.write("\n".join(lines) + "\n")
        files.append(path)
    return files, eff, burn


_HUNG = []


def real_run(processor, files, burn, timeout=60):
    """parallel_analyze_trees with real worker processes, inside a child process group that is killed if the
    collation never returns (a hang must not hang the check; after one hang the remaining runs are not started)"""
    import multiprocessing
    import signal
    if _HUNG:
        return {"log": [], "skipped": 0, "unused": 0, "outcome": "not-started-after-a-hang", "raised": ""}
    mp = multiprocessing.get_context("fork")
    rx, tx = mp.Pipe(duplex=False)

    def child():
        os.setsid()
        try:
            res = processor().parallel_analyze_trees(tree_sources=files, schema="newick", tree_offset=burn)
            tx.send(("", res))
        except Exception as ex:
            tx.send((type(ex).__name__, None))
    p = mp.Process(target=child)
    p.start()
    out = {"log": [], "skipped": 0, "unused": 0, "outcome": "finished"}
    if rx.poll(timeout):
        out["raised"], out["result"] = rx.recv()
        p.join(20)
    else:
        out["outcome"], out["raised"] = "hang", ""
        _HUNG.append(1)
    try:
        os.killpg(p.pid, signal.SIGKILL)      # stray workers of a failed or hung collation
    except OSError:
        pass
    p.join(5)
    return out


def run_par(case):
    import dendropy
    from dendropy.application import sumtrees
    tmpdir = tempfile.mkdtemp(prefix="c06_")
    try:
        files, eff, burn = par_files(case, tmpdir)
        ns, taxa = build.make_namespace(dendropy, 5)
        graphs = []
        # case["r"] is the rooting token written to the files (-1: none).  SumTrees reads a tree without a token
        # as unrooted ("default-unrooted"), so the trees the arrays see are unrooted then.
        reff = 0 if case["r"] == -1 else case["r"]
        for t in eff:
            tr = build.build_tree(dendropy, t["nested"], ns, taxa, rooted=X.rooted_arg(reff))
            graphs.append(proj.tree_graph(tr))
        tips = case.get("tips")
        st = {"iel": False, "ina": not tips, "utw": bool(case["weights"])}
        age_map = dict(("T%d" % (i + 1), float(a)) for i, a in enumerate(tips)) if tips else None

        def processor():
            return sumtrees.TreeProcessor(
                is_source_trees_rooted=(case["r"] == 1) if case["explicit"] else None,
                ignore_edge_lengths=False, ignore_node_ages=not tips, use_tree_weights=bool(case["weights"]),
                ultrametricity_precision=dendropy.utility.constants.DEFAULT_ULTRAMETRICITY_PRECISION,
                taxon_label_age_map=age_map, num_processes=case["W"], log_frequency=case.get("logfreq", 0),
                messenger=None, debug_mode=True)
        ev = {"action": "ParRun", "mode": case["mode"], "F": case["F"], "W": case["W"], "explicit": bool(case["explicit"]),
              "r": reff, "token": case["r"], "sizes": list(case["sizes"]), "burnin": burn, "async": bool(case.get("async", True)),
              "trees": graphs, "w": [t["w"] for t in eff], "set": st, "poison": bool(case.get("poison")),
              "tip": [(tips[i] * proj.LSCALE if tips and i < len(tips) else 0) for i in range(64)]}
        # serial route
        raised, ser = _call(lambda: processor().serial_analyze_trees(tree_sources=files, schema="newick", tree_offset=burn))
        ev["ser_raised"] = raised
        blank = dendropy.TreeArray()
        if raised == "":
            codes = X.LabelCodes(ser.taxon_namespace)
            ev["ser"] = X.proj_array(ser, codes)
            ev["serq"] = X.queries(ser, codes) if len(ser) else X.queries(blank)
        else:
            ev["ser"] = X.proj_array(blank)
            ev["serq"] = X.queries(blank)
        # parallel route
        if case["mode"] == "shim":
            out = X.ParallelRun(sumtrees, asynchronous=case.get("async", True)).run(
                processor(), files, "newick", burn, case["schedule"], policy=case.get("policy", "fifo"))
        else:
            out = real_run(processor, files, burn)
        ev["outcome"] = out.get("outcome", "finished")
        ev["raised"] = out.get("raised", "") if ev["outcome"] == "finished" else ""
        ev["crashes"] = list(out.get("worker_crashes", []))
        ev["log"] = out["log"]
        ev["sched"] = {"given": len(case.get("schedule", [])), "skipped": out["skipped"], "unused": out["unused"]}
        res = out.get("result")
        if ev["raised"] == "" and res is not None:
            codes = X.LabelCodes(res.taxon_namespace)
            ev["par"] = X.proj_array(res, codes)
            ev["parq"] = X.queries(res, codes) if len(res) else X.queries(blank)
        else:
            ev["par"] = X.proj_array(blank)
            ev["parq"] = X.queries(blank)
        return [ev]
    finally:
        shutil.rmtree(tmpdir, ignore_errors=True)

# =============================================================================== dispatch
def run_case(case):
    if case["kind"] == "seq":
        return run_seq(case)
    if case["kind"] == "par":
        return run_par(case)
    raise core.MachineryError("unknown case kind %r" % (case.get("kind"),))


def seq_model_cases(ctx):
    tier = "quick" if ctx.quick else "thorough"
    dump = os.path.join(ctx.work, "cat.dump")
    ctx.model("MC_TreeArrayMerge", "MC_TreeArrayMerge_catalogue_quick.cfg", extra=("-dump", dump), workers=1, count=False)
    cat = tlaval.read_dump(dump)[0]["cfg"]
    os.remove(dump)
    dot = os.path.join(ctx.work, "tam.dot")
    if ctx.quick:
        # one run: TLC checks the invariants and dumps the graph that is replayed
        ctx.model("MC_TreeArrayMerge", "MC_TreeArrayMerge_quick.cfg", extra=("-dump", "dot,actionlabels", dot), workers=8)
    else:
        # the thorough model (4 trees, every explicit/implicit combination) is checked; the graph that is replayed has
        # 3 trees and every explicit/implicit combination (the dump of the larger one would be gigabytes)
        ctx.model("MC_TreeArrayMerge", "MC_TreeArrayMerge_thorough.cfg", workers=8)
        ctx.model("MC_TreeArrayMerge", "MC_TreeArrayMerge_replay_thorough.cfg", extra=("-dump", "dot,actionlabels", dot), workers=8, count=False)
    inits, edges, states = X.read_dot(dot)
    os.remove(dot)
    adj, pred, root, order = X.graph_of(inits, edges)
    cases = []
    for n, u in enumerate(order):
        if u not in adj:
            continue
        prefix = []
        x = u
        while x in pred:
            x, a, args = pred[x]
            prefix.append([a] + list(args))
        prefix.reverse()
        cfg = states[root[u]]["cfg"]
        r = cfg["r"]
        kind = 2 if cfg["ages"] else r          # 2: the rooted ultrametric catalogue, node ages recorded
        trees = [{"nested": X.nested_of_graph(cat["graphs"][kind][t - 1]), "w": cat["w"][t - 1]} for t in cat["sample"]]
        cases.append({"kind": "seq", "src": "model", "seed": ctx.seed * 1000003 + n, "r": r, "ntax": 4,
                      "set": dict(DEFAULT_SET, ina=not cfg["ages"]),
                      "trees": trees, "expl": list(cfg["expl"]), "ops": prefix,
                      "fan": [[a] + list(args) for (_, a, args) in adj[u]]})
    return cases, len(edges)


def par_case(n, seed, mode, F, W, explicit, sizes, schedule, mult=2):
    token = (0, 1)[n % 2] if explicit else (0, 1, -1)[n % 3]
    c = {"kind": "par", "mode": mode, "F": F, "W": W, "explicit": bool(explicit), "r": token, "sizes": list(sizes),
         "mult": mult, "schedule": schedule, "async": True, "seed": seed * 1000003 + n, "weights": n % 5 == 0,
         "logfreq": 500 if n % 2 else 0}
    if token == 1 and n % 4 < 2:
        # rotated in: dated tips (--tip-ages) and node-age summarisation, on rooted samples
        c["tips"] = [(n + 2 * i) % 3 for i in range(5)] if (n // 4) % 3 else [0, 1, 0, 2, 1]
        if not any(c["tips"]):
            c["tips"][1] = 1
    return c


def probe_protocol(ctx):
    """which work-distribution protocol does the code under test use: does a worker poll (get_nowait) or block (get)?"""
    ev = run_par(par_case(0, ctx.seed, "shim", 1, 1, True, [1], []))[0]
    ops = set(o["op"] for o in ev["log"] if o["q"] == "work" and o["p"] not in (0, 100))
    if ops == {"get_nowait"}:
        return "nowait"
    if ops == {"get"}:
        return "sentinel"
    raise core.MachineryError("cannot tell the work queue protocol of TreeAnalysisWorker.run from %r" % (sorted(ops),))


def par_model_cases(ctx, protocol):
    tier = "quick" if ctx.quick else "thorough"
    dot = os.path.join(ctx.work, "stp.dot")
    ctx.model("MC_SumTreesPar", "MC_SumTreesPar_replay_%s_%s.cfg" % (protocol, tier), extra=("-dump", "dot,actionlabels", dot),
              workers=8, count=False)
    inits, edges, states = X.read_dot(dot)
    os.remove(dot)
    adj, pred, root, order = X.graph_of(inits, edges)
    npaths = X.count_paths(inits, adj)
    cap = 400 if ctx.quick else 4000
    sched = []          # (init, path, how)
    full = [i for i in inits if npaths[i] <= cap]
    for i in full:
        sched.extend((i0, p, "all") for (i0, p) in X.all_paths(i, adj, cap + 1))
    rest = [i for i in inits if npaths[i] > cap]
    if rest:
        adj2, pred2, root2, order2 = X.graph_of(rest, edges)
        sched.extend((i0, p, "cover") for (i0, p) in X.edge_cover(rest, adj2, pred2, root2, order2))
        rng = random.Random(ctx.seed + 606)
        sched.extend((i0, p, "walk") for (i0, p) in X.random_paths(rest, adj, rng, 200 if ctx.quick else 3000))
    cases = []
    for n, (i, path, how) in enumerate(sched):
        c = states[i]["cfg"]
        case = par_case(n, ctx.seed, "shim", c["F"], c["W"], c["explicit"], c["size"][:c["F"]], schedule_of_path(path))
        case["how"] = how
        cases.append(case)
    info = {"protocol_of_code_under_test": protocol, "model_transitions": len(edges), "configurations": len(inits),
            "configurations_with_every_schedule_replayed": len(full),
            "schedules_per_configuration": dict(("F%d W%d %s %s" % (states[i]["cfg"]["F"], states[i]["cfg"]["W"],
                                                                    "explicit" if states[i]["cfg"]["explicit"] else "implicit",
                                                                    states[i]["cfg"]["size"]), npaths[i]) for i in inits)}
    return cases, info


def par_random_cases(ctx, n0):
    """seeded random schedules beyond the dumped graphs (more files and workers, files without trees after burn-in)"""
    rng = random.Random(ctx.seed + 707)
    cases = []
    for n in range(150 if ctx.quick else 3000):
        F = rng.randint(1, 3 if ctx.quick else 4)
        W = rng.randint(1, 4 if ctx.quick else 5)
        procs = ["main", "feeder"] + ["w%d" % k for k in range(1, W + 1)]
        weights = [3, rng.choice((1, 3, 6))] + [rng.choice((1, 3)) for _ in range(W)]
        schedule = rng.choices(procs, weights=weights, k=12 * (F + W))
        c = par_case(n0 + n, ctx.seed, "shim", F, W, rng.random() < 0.5, [rng.choice((0, 1, 1, 2)) for _ in range(F)], schedule,
                     mult=rng.choice((1, 2)))
        c["how"] = "random"
        c["policy"] = rng.choice(("fifo", "lifo"))
        if n % 6 == 1 and "poison" not in c:
            # the same file listed twice, with a burn-in; logging off so that the serial run reads all sources in one call
            c.update({"F": 2, "sizes": [max(1, c["sizes"][0])] * 2, "dup": True, "burn": 1, "logfreq": 0})
        elif n % 8 == 3 and not c["explicit"] and c["r"] in (0, 1):
            live = [f + 1 for f in range(F) if c["sizes"][f] > 0]
            if live and sum(c["sizes"]) * c["mult"] >= 2:      # the foreign tree needs a companion to clash with
                f = rng.choice(live)
                c["poison"] = [f, rng.randint(1, c["sizes"][f - 1] * c["mult"])]
        cases.append(c)
    return cases


def smoke_cases(ctx):
    """real worker processes (no scheduler): few files, more workers than files"""
    out = []
    for n in range(8 if ctx.quick else 40):
        F = 1 + (n % 2)
        c = par_case(9000 + n, ctx.seed, "real", F, 3, n % 4 != 3, [1] * F, [])
        c["how"] = "real-processes"
        out.append(c)
    return out


def _threads(jobs):
    """run independent TLC model runs side by side"""
    errs, ths = [], []
    def wrap(fn):
        def go():
            try:
                fn()
            except BaseException as ex:     # re-raised in the main thread
                errs.append(ex)
        return go
    for fn in jobs:
        t = threading.Thread(target=wrap(fn))
        t.start()
        ths.append(t)
        time.sleep(0.2)         # the TLC runner names its scratch directory by the millisecond
    for t in ths:
        t.join()
    if errs:
        raise errs[0]


def run(ctx):
    tier = "quick" if ctx.quick else "thorough"
    box = {}
    # ---- 1. TLC on the models: the reference design satisfies the property for every partition / arrival order /
    #         schedule; the shipped rules must be found violating it (non-vacuity)
    protocol = probe_protocol(ctx)
    ctx.log("work queue protocol of the code under test: %s" % protocol)
    _threads([
        lambda: box.__setitem__("seq", seq_model_cases(ctx)),
        lambda: box.__setitem__("par", par_model_cases(ctx, protocol)),
        lambda: ctx.model("MC_SumTreesPar", "MC_SumTreesPar_sentinel_%s.cfg" % tier, workers=4),
        lambda: ctx.model("MC_SumTreesPar", "MC_SumTreesPar_nowait_%s.cfg" % tier, workers=4),
        lambda: (ctx.model("MC_TreeArrayMerge", "AsShipped_TreeArrayMerge_update.cfg", expect_violation="NoMergeFailure", count=False, workers=2),
                 ctx.model("MC_TreeArrayMerge", "AsShipped_TreeArrayMerge_extend.cfg", expect_violation="PerTreeQueriesEnabled", count=False, workers=2),
                 ctx.model("MC_SumTreesPar", "AsShipped_SumTreesPar_update.cfg", expect_violation="NoMergeFailure", count=False, workers=2),
                 ctx.model("MC_SumTreesPar", "AsShipped_SumTreesPar_feeder.cfg", expect_violation="EveryFileRead", count=False, workers=2),
                 ctx.model("MC_SumTreesPar", "AsShipped_SumTreesPar_feeder_summary.cfg", expect_violation="SameSummary", count=False, workers=2)),
    ])
    seq_cases, nedges = box["seq"]
    par_cases, pinfo = box["par"]
    parts = os.environ.get("C06_PARTS", "seq,par,real").split(",")      # development aid; the registered check runs all parts
    if "seq" not in parts:
        seq_cases = seq_cases[:1]
    if "par" not in parts:
        par_cases = par_cases[:1]
    # ---- 2. sequential part on real TreeArrays
    nrand = (150 if ctx.quick else 3000) if "seq" in parts else 1
    rnd = [random_seq_case(ctx.seed * 7919 + 17 * i + 1, not ctx.quick) for i in range(nrand)]
    driven = ctx.drive(seq_cases + rnd, run_case)
    ctx.judge("Trace_TreeArrayMerge", driven, batch=1500)
    for case, evs in driven:
        for e in evs:
            if e["action"] in MERGE_ACTION.values():
                ctx.add_nontrivial(["merge", e["action"], case["r"], e["pre"]["rooting"], e["prej"]["rooting"], e["pre"]["n"][0], e["prej"]["n"][0],
                                    case["expl"], case["set"], case["ops"], e["k"], e["j"]])
    # ---- 3. concurrent part: TLC's schedules through the real collation, then real processes
    rcases = par_random_cases(ctx, len(par_cases)) if "par" in parts else []
    pdriven = ctx.drive(par_cases + rcases, run_case, chunksize=16)
    ctx.judge("Trace_SumTreesPar", pdriven, batch=400)
    sdriven = ctx.drive(smoke_cases(ctx) if "real" in parts else [], run_case, parallel=False)
    ctx.judge("Trace_SumTreesPar", sdriven)
    skipped = unused = exact = 0
    for case, evs in pdriven:
        e = evs[0]
        if case["how"] != "random":
            skipped += e["sched"]["skipped"]
            unused += e["sched"]["unused"]
            exact += 1 if (e["sched"]["skipped"] == 0 and e["sched"]["unused"] == 0) else 0
        if case["W"] > 1:
            ctx.add_nontrivial(["schedule", case["F"], case["W"], case["explicit"], case["r"], case["sizes"],
                                [(o["p"], o["op"], o["v"]) for o in e["log"]]])
    machinery = [v for v in ctx.verdicts if v["clause"] == "C06.Machinery"]
    if machinery:
        raise core.MachineryError("harness / scheduler does not conform to the model: %s on %s"
                                  % (machinery[0]["class"], core.dumps(ctx.cases[machinery[0]["tid"]])[:400]))
    real = [e for _, evs in sdriven for e in evs]
    ctx.extra["sumtrees"] = dict(pinfo, schedules_replayed=len(par_cases), random_schedules=len(rcases),
                                 schedules_followed_step_by_step=exact, schedule_steps_skipped=skipped,
                                 schedule_steps_unused_after_an_exception=unused,
                                 real_process_runs=len(real),
                                 real_process_runs_that_raised=sum(1 for e in real if e["raised"]),
                                 real_process_runs_with_trees_missing=sum(1 for e in real if not e["raised"] and e["par"]["dist"]["n"] < len(e["trees"])))
    ctx.extra["model_transitions_replayed"] = {"TreeArrayMerge": nedges, "SumTreesPar": pinfo["model_transitions"]}
    ctx.rule = ("sequential: one real execution per transition of the dumped TLC state graph of MC_TreeArrayMerge (%d transitions; each model "
                "state reached once, every outgoing transition executed on a pickled copy of the real arrays) + %d seeded random samples "
                "(5-7 taxa, 3-8 trees, 2-4 sub-arrays, settings variants); concurrent: for every run configuration of MC_SumTreesPar's "
                "graph (protocol of the code under test: %s) every maximal path when there are <= %d, otherwise an edge cover by maximal "
                "paths + random walks, each replayed through the real parallel_analyze_trees with the baton scheduler, + %d random schedules "
                "on more files/workers, + %d runs with real processes; distinct_nontrivial = distinct (merge, operand shapes, history) "
                "executed + distinct logged queue-operation sequences with more than one worker"
                % (nedges, nrand, protocol, 400 if ctx.quick else 4000, len(rcases), len(real)))
    ctx.exhaustive = False
    ctx.extra["exhaustive_domain"] = ("TLC model runs are exhaustive for their constants (all partitions / arrival orders / schedules); "
                                      "the replay of SumTreesPar is exhaustive (every schedule) for %d of %d run configurations"
                                      % (pinfo["configurations_with_every_schedule_replayed"], pinfo["configurations"]))
    ctx.assumptions += [
        "the baton scheduler (vlib/x_c06.py) stands in for the OS scheduler: threads instead of processes, queue shims that pickle like "
        "multiprocessing.Queue and model its feeder thread as a separate flush step; cross-checked by runs with real processes",
        "credibility scores are logarithms: the harness hands exp(score) to TLC as a fraction (round-trip checked), TLC compares with the exact product",
        "which splits of frequency exactly 1/2 enter the consensus is not decided here (C05); the consensus of a merged array is compared with "
        "the one of the array filled one tree at a time instead",
        "arrays in identical states are interchangeable: the model uses the lowest-numbered one (symmetry breaking)",
        "use_tree_weights=False is exercised with unweighted trees only (TreeArray does not pass the flag to its SplitDistribution; outside C06)",
    ]
    if driven:
        ctx.add_sample({"case": driven[len(driven) // 2][0], "events": [dict((k, v) for k, v in e.items() if k in ("action", "k", "j", "t", "i", "raised", "from", "to"))
                                                                        for e in driven[len(driven) // 2][1]]})
    if pdriven:
        c, evs = pdriven[len(pdriven) // 3]
        ctx.add_sample({"case": c, "log": evs[0]["log"], "raised": evs[0]["raised"], "trees_in_master": evs[0]["par"]["dist"]["n"]})


def replay(ctx, rec):
    driven = ctx.drive([rec["case"]], run_case, parallel=False)
    ctx.judge("Trace_SumTreesPar" if rec["case"]["kind"] == "par" else "Trace_TreeArrayMerge", driven)
    ctx.rule = "replay of one recorded case"
    ctx.add_sample({"case": rec["case"]})
