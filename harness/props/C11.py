"""C11 - collections keep every member inside their own taxon namespace.

spec/Containers.tla: a universe of namespaces / trees / tree lists / matrices / tree arrays / one data set,
every container operation as a pure operator (Apply) with its documented precondition (Guard), and the
property as clauses over a pre and a post universe (Viol: Closure + RemovedKeepConsistentNs;
LFAll over Moves: LabelFunctional).  MC_Containers: TLC checks all operation histories to a depth.
Binding:
  spec -> code  every transition of the dumped TLC state graph is executed on real objects (the universe is
                built from the model's initial state, the shortest model path is replayed, then the edge);
                TLC-simulated longer behaviours on a larger universe are replayed the same way;
  code -> spec  after every call the real objects are projected (id() of taxon_namespace attributes, of the
                taxon on every node / sequence key, namespace membership) and TLC (Trace_Containers) judges
                every call on the logged universes: closure introduced-violations, label functionality of
                what the call moved, chain continuity.  Reference-vs-code differences that are no property
                clause (C11.Drift) are counted, never failing.
The Python side has no oracle: it builds, calls, projects, logs.
"""
import os
import random
import re

from vlib import core, tlaval, x_c11

ID = "C11"


def run_case(case):
    import dendropy
    rng = random.Random(case.get("seed", 0))
    w = x_c11.World(dendropy).build(case["init"])
    evs = []
    path = case["path"]
    log_from = case.get("log_from", 0)
    if case.get("log_init"):
        # the freshly built universe, next to the model state it was built from: TLC compares them
        u = w.project()
        evs.append({"action": "Init", "args": {"none": 0}, "via": "build", "pre": u, "post": u, "raised": "", "model": case["init"]})
    for k, (name, pos) in enumerate(path):
        a = x_c11.args_of(name, pos)
        ev = w.call(name, a, rng)
        if k >= log_from:
            evs.append(ev)
    # closing call of every history: ns.clear() + reconstruct_taxon_namespace() on one list, preferably one that is
    # the only user of its namespace (SoleUser in spec/Containers.tla; otherwise the judge files the call as
    # outside-precondition drift).  The model enables this action rarely in its small universes.
    u = w.project()
    def sole(l):
        L = u["lists"][l - 1]
        n = L["ns"]
        return (all(o["ns"] != n for j, o in enumerate(u["lists"]) if j != l - 1) and all(m["ns"] != n for m in u["mats"])
                and all(a["ns"] != n and a["sd"] != n for a in u["arrs"]) and u["ds"]["att"] != n
                and all(t["ns"] != n for j, t in enumerate(u["trees"]) if (j + 1) not in L["trees"]))
    def sole_m(m):
        n = u["mats"][m - 1]["ns"]
        return (all(o["ns"] != n for j, o in enumerate(u["mats"]) if j != m - 1) and all(L["ns"] != n for L in u["lists"])
                and all(a["ns"] != n and a["sd"] != n for a in u["arrs"]) and u["ds"]["att"] != n
                and all(t["ns"] != n for t in u["trees"]))
    sd = case.get("seed", 0)
    done = False
    if u["lists"] and path:
        cands = [l for l in range(1, len(u["lists"]) + 1) if sole(l) and u["lists"][l - 1]["trees"]]
        if cands and sd % 3 != 2:
            evs.append(w.call("TLClearReconstruct", {"l": cands[sd % len(cands)], "unify": bool((sd // 7) % 2)}, rng, pre=u))
            done = True
    if u["mats"] and path and not done:
        cands = [m for m in range(1, len(u["mats"]) + 1) if sole_m(m) and u["mats"][m - 1]["rows"]]
        if cands:
            evs.append(w.call("CMClearReconstruct", {"m": cands[sd % len(cands)], "unify": bool((sd // 7) % 2)}, rng, pre=u))
    return evs


def graph_cases(ctx, cfg, seed):
    """one case per transition of the dumped state graph"""
    dot = os.path.join(ctx.work, "c11.dot")
    ctx.model("MC_Containers", cfg, extra=("-dump", "dot,actionlabels", dot), count=False, workers=8, heap="3g")
    inits, edges, states = tlaval.read_dot(dot)
    paths, root = tlaval.shortest_paths(inits, edges)
    cases = []
    for k, (u, v, name, args) in enumerate(edges):
        if u not in paths:
            continue
        p = paths[u] + [(name, args)]
        cases.append({"kind": "path", "init": states[root[u]]["u"], "path": p, "log_from": 0 if k % 40 == 0 else len(p) - 1, "log_init": k % 40 == 0,
                      "seed": seed * 1000003 + k})
    os.remove(dot)
    return cases, len(edges)


_SIM_ACT = re.compile(r"^\\\* <(\w+)(?:\((.*)\))? line \d+, col \d+ to line \d+, col \d+ of module MC_Containers>\s*$")


def sim_cases(ctx, cfg, num, depth, seed):
    """TLC-simulated behaviours (seeded) of the larger universe: the random histories"""
    base = os.path.join(ctx.work, "sim")
    ctx.model("MC_Containers", cfg, workers=4, count=False, heap="2g",
              simulate="num=%d,file=%s" % (max(1, num // 4), base), extra=("-depth", str(depth), "-seed", str(seed + 1)))
    cases = []
    d = os.path.dirname(base)
    for fn in sorted(os.listdir(d)):
        if not fn.startswith("sim_"):
            continue
        with open(os.path.join(d, fn)) as f:
            txt = f.read()
        os.remove(os.path.join(d, fn))
        chunks = re.split(r"(?m)^(?=\\\* <)", txt)
        init, path = None, []
        for ch in chunks:
            lines = ch.split("\n")
            m = _SIM_ACT.match(lines[0])
            if not m:
                continue
            body = "\n".join(lines[2:]).strip()       # after 'STATE_n =='
            if m.group(1) == "Init":
                init = tlaval.parse_state(body)["u"]
            else:
                path.append(tlaval.parse_action_label(m.group(1) + ("(" + m.group(2) + ")" if m.group(2) is not None else "")))
        if init is not None and path:
            cases.append({"kind": "sim", "init": init, "path": [list(p) for p in path], "log_init": True, "seed": seed * 7919 + len(cases)})
    return cases


def split_drift(ctx):
    """C11.Drift verdicts are computed by TLC like all others but are no property clause (DESIGN 1.2):
    they are moved from the failing verdicts into the evidence."""
    keep = []
    for v in ctx.verdicts:
        if v.get("clause") == "C11.Drift":
            key = "%s:%s" % (v["action"], v.get("class", ""))
            ctx.drift[key] = ctx.drift.get(key, 0) + 1
            if "pre-universe" not in key and len(ctx.extra.setdefault("drift_samples", [])) < 40 and key not in [s["key"] for s in ctx.extra["drift_samples"]]:
                ev = v["event"]
                ctx.extra["drift_samples"].append({"key": key, "args": ev["args"], "raised": ev["raised"], "via": ev.get("via"),
                                                   "path": ctx.cases[v["tid"]]["path"]})
            if os.environ.get("VERIF_C11_DEV") == "3" and ("effect" in key or "outside" in key) and not any(x in key for x in ("CMMigrate",)):
                ev = v["event"]
                ctx.log("DRIFT %s via=%s args=%s\n   pre =%s\n   post=%s" % (key, ev.get("via"), core.dumps(ev["args"]), core.dumps(ev["pre"]), core.dumps(ev["post"])))
        else:
            keep.append(v)
    ctx.verdicts[:] = keep


def account(ctx, driven):
    for case, evs in driven:
        for e in evs:
            if e["raised"] != "NO-OPERAND" and e["action"] != "Init":
                ctx.add_nontrivial([e["action"], e["args"], e["pre"]])


def run_dev(ctx):
    """VERIF_C11_DEV=1: depth-1 graph only (debugging aid while the machine is busy)"""
    cases, nedges = graph_cases(ctx, "MC_Containers_dev.cfg", ctx.seed)
    sims = sim_cases(ctx, "Sim_Containers_quick.cfg", 10, 11, ctx.seed) if os.environ.get("VERIF_C11_DEV") in ("2", "3") else []
    driven = ctx.drive(cases + sims, run_case)
    ctx.judge("Trace_Containers", driven, batch=3000, heap="2g")
    split_drift(ctx)
    account(ctx, driven)
    ctx.rule = "development run"
    ctx.log("drift: %r" % (ctx.drift,))


def run(ctx):
    quick = ctx.quick
    if os.environ.get("VERIF_C11_DEV"):
        return run_dev(ctx)
    # 1. TLC checks the reference design: every history of container operations to the depth bound
    depth = 3 if quick else 4
    scratch = os.path.abspath(core.repo_root()) != "/repo"
    if scratch:
        # a patched scratch copy of the library (mutant / proposed fix): the model-level runs do not depend on the
        # library and were done by the registered run; only the binding to the code is repeated
        ctx.log("scratch repository %s: model-level runs skipped" % core.repo_root())
    elif quick:
        ctx.model("MC_Containers", "MC_Containers_quick.cfg", heap="6g")
    else:
        # every object of the universe as argument to depth 2, the narrow argument sets to depth 3 (all operation
        # families together) and to depth 4 (per group of families)
        ctx.model("MC_Containers", "MC_Containers_thorough.cfg", timeout=6000)
        ctx.model("MC_Containers", "MC_Containers_quick.cfg", timeout=6000)
        for i in range(5):
            ctx.model("MC_Containers", "MC_Containers_thorough_d4_%d.cfg" % i, timeout=12000)
    # ... and must find each shipped rule violating the property (non-vacuity)
    if not scratch:
        ctx.model("MC_Containers", "AsShipped_Containers_dsadd.cfg", expect_violation="ClosureInv", count=False, workers=4, heap="2g")
        ctx.model("MC_Containers", "AsShipped_Containers_matpartial.cfg", expect_violation="ClosureInv", count=False, workers=4, heap="2g")
        ctx.model("MC_Containers", "AsShipped_Containers_clonedrop.cfg", expect_violation="LabelFunctional", count=False, workers=4, heap="2g")
    # 2. spec -> code: one real execution per transition of the dumped graph
    if quick:
        cases, nedges = graph_cases(ctx, "MC_Containers_replay_quick.cfg", ctx.seed)
    else:
        cases, nedges = graph_cases(ctx, "MC_Containers_replay_thorough.cfg", ctx.seed)
    # 2b. deeper histories of narrow operation families around history-dependent hidden state (import from a foreign
    #     namespace ; namespace change of the container ; import from the same foreign namespace again; and the
    #     data set / matrix analogue), every transition replayed as well
    for fam in ("L", "D", "M"):
        fc, fe = graph_cases(ctx, "MC_Containers_focus%s_%s.cfg" % (fam, "quick" if quick else "thorough"), ctx.seed + ord(fam))
        cases += fc
        nedges += fe
        ctx.extra["focus_%s_transitions" % fam] = fe
    # 3. seeded random histories: TLC-simulated behaviours of the larger universe
    nsim, sdepth = (600, 10) if quick else (3000, 14)
    sims = sim_cases(ctx, "Sim_Containers_quick.cfg" if quick else "Sim_Containers_thorough.cfg", nsim, sdepth + 1, ctx.seed)
    driven = ctx.drive(cases + sims, run_case)
    ctx.judge("Trace_Containers", driven, batch=3000, heap="2g")
    split_drift(ctx)
    account(ctx, driven)
    ctx.rule = ("cases = one real execution per transition of the dumped TLC state graphs of MC_Containers: all operations to "
                "depth 2 and the focus families (foreign import / container namespace change / import again; data set "
                "read / attach / unify / read again) to depth %d " % (3 if quick else 4) +
                "(%d transitions; universe built from the model's initial state, shortest path replayed, the edge judged) "
                "+ %d TLC-simulated histories of %d operations on the larger universe (all calls judged); "
                "distinct_nontrivial counts distinct (operation, arguments, projected universe before the call) triples "
                "actually executed on real objects" % (nedges, len(sims), sdepth))
    ctx.exhaustive = False
    ctx.extra["model_transitions_replayed"] = nedges
    ctx.extra["simulated_histories"] = len(sims)
    ctx.extra["model_depth"] = depth
    ctx.assumptions.append("operations are called on operands that are not shared with a container bound to another "
                           "namespace (Guard in spec/Containers.tla); attach_taxon_namespace is called on data sets whose "
                           "components already use that namespace (its docstring only binds later reads); readers are given "
                           "case_sensitive_taxon_labels = the target namespace's setting; namespaces are mutable")
    if driven:
        c0, e0 = driven[0]
        ctx.add_sample({"case": {"path": c0["path"]}, "event": {k: e0[-1][k] for k in ("action", "args", "raised", "post")}})
        c1, e1 = driven[-1]
        ctx.add_sample({"case": {"path": c1["path"]}, "events": [{k: e[k] for k in ("action", "args", "raised")} for e in e1]})


def replay(ctx, rec):
    driven = ctx.drive([rec["case"]], run_case, parallel=False)
    ctx.judge("Trace_Containers", driven)
    split_drift(ctx)
    ctx.rule = "replay of one recorded case"
    ctx.add_sample({"case": {"path": rec["case"]["path"]}})
    ctx.nontrivial.update(["replay", "replay2"])
