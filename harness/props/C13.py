"""C13 - all ways of reading the same source deliver the same data.

spec/ReadRoutes.tla models a document (TREES blocks of statements with rooting
tokens, weights, comments, TRANSLATE; CHARACTERS blocks) and the reading
routes as selections over the collections it defines; MC_ReadRoutes (TLC)
checks that the route definitions agree pairwise on every bounded document
and dumps the documents.  Every dumped document is rendered to NEXUS / Newick /
NeXML text by the deterministic renderer of vlib/x_c13.py (not by DendroPy's
writers) and read through every route (TreeList.get, Tree.get, TreeList.read,
Tree.yield_from_files, TreeArray.read, DataSet.get/read, CharacterMatrix.get;
data= / file= / path=) with every offset and rotating option sets; only
projections are logged.  Trace_ReadRoutes (TLC) judges pairwise agreement.
Seeded random documents (more blocks, more statements, larger trees) go
through the same driver and judge.  No oracle on the Python side.
"""
import io
import os
import random

from vlib import core, tlaval, proj, x_c13

ID = "C13"
NOOFF = x_c13.NOOFF

# option sets accepted by every compared route of the text schemas (reader = yielder keywords)
OPTSETS_TEXT = [
    {},
    {"rooting": "default-rooted", "store_tree_weights": True},
    {"rooting": "force-unrooted", "extract_comment_metadata": False},
    {"rooting": "default-unrooted", "preserve_underscores": True, "store_tree_weights": True},
    {"rooting": "force-rooted", "suppress_internal_node_taxa": False},
    {"case_sensitive_taxon_labels": True, "store_tree_weights": True, "extract_comment_metadata": False},
    {"suppress_leaf_node_taxa": True, "rooting": "default-rooted"},
    {"suppress_internal_node_taxa": False, "suppress_leaf_node_taxa": True, "preserve_underscores": True},
    {"rooting": "default-rooted", "extract_comment_metadata": False, "preserve_underscores": True, "case_sensitive_taxon_labels": True},
]
# the NeXML reader and yielder accept only these
OPTSETS_NEXML = [
    {},
    {"case_sensitive_taxon_labels": True},
    {"suppress_internal_node_taxa": False},
    {"suppress_leaf_node_taxa": True, "case_sensitive_taxon_labels": True},
]


def optsets(fmt):
    return OPTSETS_NEXML if fmt == "nexml" else OPTSETS_TEXT


def _outcome(fn):
    try:
        return "", fn()
    except Exception as ex:
        return type(ex).__name__, None


def case_light(grid):
    return grid == "light"


def _offs(n):
    return [NOOFF] + list(range(-(n + 1), n + 1))


def _offkw(c, t):
    kw = {}
    if c != NOOFF:
        kw["collection_offset"] = c
    if t != NOOFF:
        kw["tree_offset"] = t
    return kw


def run_case(case):
    import dendropy
    doc, fmt, opts, shared = case["doc"], case["fmt"], case["opts"], case["shared"]
    grid = case.get("grid", "full")
    text = x_c13.RENDER[case.get("render", fmt)](doc)
    path = os.path.join(case["tmp"], "c13_%d_%s.txt" % (os.getpid(), case["key"]))
    with open(path, "w") as f:
        f.write(text)
    try:
        ev = _routes(dendropy, doc, fmt, opts, shared, grid, text, path, case.get("pairs", []))
        ev["render"] = case.get("render", fmt)
        return [ev]
    finally:
        try:
            os.remove(path)
        except OSError:
            pass


def _routes(dendropy, doc, fmt, opts, shared, grid, text, path, pair_routes=()):
    kw = dict(opts)
    pool = x_c13.Pool(core.dumps)
    mpool = x_c13.Pool(core.dumps)
    if shared:
        ns = dendropy.TaxonNamespace(is_case_sensitive=bool(opts.get("case_sensitive_taxon_labels", False)))
        nskw = {"taxon_namespace": ns}
        shared_codes = proj.TaxonCodes(ns)
    else:
        ns, nskw, shared_codes = None, {}, None

    def codes_for(tns):
        return shared_codes if shared else proj.TaxonCodes(tns)

    def src_kw(src):
        if src == "data":
            return {"data": text}
        if src == "stream":
            return {"file": io.StringIO(text)}
        if src == "file":
            return {"file": open(path, "r")}
        return {"path": path}

    def close(skw):
        f = skw.get("file")
        if f is not None:
            try:
                f.close()
            except Exception:
                pass

    ev = {"action": "Routes", "fmt": fmt, "shared": shared, "doc": doc, "opts": opts, "grid": grid,
          "pool": pool.items, "ref": {"raised": "", "alt": "", "colls": []}, "calls": [], "arrays": [],
          "mpool": mpool.items, "mref": [], "mcalls": [], "pairs": []}

    # ---- reference: the data-set route
    def ds_views(ds):
        tns = ds.taxon_namespaces[0] if len(ds.taxon_namespaces) else (ds.tree_lists[0].taxon_namespace if len(ds.tree_lists) else None)
        codes = codes_for(tns)
        colls = [[pool.add(x_c13.tree_view(t, codes)) for t in tl] for tl in ds.tree_lists]
        mats = [mpool.add(x_c13.matrix_view(m, codes)) for m in ds.char_matrices]
        return colls, mats
    raised, ds = _outcome(lambda: dendropy.DataSet.get(data=text, schema=fmt, **dict(nskw, **kw)))
    if raised:
        # the data-set route failed: does the tree-list route deliver from the same text?  (if it fails too the
        # document itself is not valid under this option set: a machinery failure of the harness, see run())
        r2, _tl = _outcome(lambda: dendropy.TreeList.get(data=text, schema=fmt, **dict(nskw, **kw)))
        ev["ref"]["raised"] = raised
        ev["ref"]["alt"] = r2
        return ev
    colls, mats = ds_views(ds)
    ev["ref"]["colls"] = colls
    ev["mref"] = mats

    def add_call(route, c, t, src, raised, items, lens=(), pre=(), n=-1, lab=""):
        ev["calls"].append({"route": route, "c": c, "t": t, "src": src, "lab": lab, "raised": raised,
                            "items": list(items), "lens": list(lens), "pre": list(pre), "n": n})

    def list_views(tl):
        codes = codes_for(tl.taxon_namespace)
        return [pool.add(x_c13.tree_view(t, codes)) for t in tl]

    # ---- DataSet.get through the other sources, DataSet.read into an empty data set
    add_call("DataSetGet", NOOFF, NOOFF, "data", "", [i for c in colls for i in c], lens=[len(c) for c in colls])
    for src in (("path",) if case_light(grid) else ("stream", "file", "path")):
        skw = src_kw(src)
        r, d2 = _outcome(lambda: dendropy.DataSet.get(schema=fmt, **dict(skw, **dict(nskw, **kw))))
        close(skw)
        c2 = ds_views(d2)[0] if not r else []
        add_call("DataSetGet", NOOFF, NOOFF, src, r, [i for c in c2 for i in c], lens=[len(c) for c in c2])
    d3 = dendropy.DataSet()
    r, _ = _outcome(lambda: d3.read(data=text, schema=fmt, **dict(nskw, **kw)))
    c3 = ds_views(d3)[0] if not r else []
    add_call("DataSetRead", NOOFF, NOOFF, "data", r, [i for c in c3 for i in c], lens=[len(c) for c in c3])

    # ---- two consecutive reads of the same text into ONE fresh namespace: first by route A, then by route B
    # (all trees of the source each time); the judge requires identical taxon objects (SameTaxaWhenShared)
    def read_all(route, tns, codes):
        nk = {"taxon_namespace": tns}
        if route == "TreeListGet":
            return [pool.add(x_c13.tree_view(t, codes)) for t in dendropy.TreeList.get(data=text, schema=fmt, **dict(nk, **kw))]
        if route == "DataSetGet":
            d = dendropy.DataSet.get(data=text, schema=fmt, **dict(nk, **kw))
            return [pool.add(x_c13.tree_view(t, codes)) for tl in d.tree_lists for t in tl]
        if route == "YieldFromFiles":
            return [pool.add(x_c13.tree_view(t, codes)) for t in dendropy.Tree.yield_from_files(files=[io.StringIO(text)], schema=fmt, **dict(nk, **kw))]
        if route == "TreeListRead":
            tl = dendropy.TreeList(taxon_namespace=tns)
            tl.read(data=text, schema=fmt, **kw)
            return [pool.add(x_c13.tree_view(t, codes)) for t in tl]
        raise ValueError(route)
    PAIR_B = ("TreeListGet", "DataSetGet", "YieldFromFiles", "TreeListRead")
    for ra in pair_routes:
        tns = dendropy.TaxonNamespace(is_case_sensitive=bool(opts.get("case_sensitive_taxon_labels", False)))
        pcodes = proj.TaxonCodes(tns)
        r, ia = _outcome(lambda: read_all(ra, tns, pcodes))
        if r:
            ev["pairs"].append({"a": ra, "b": "", "raised": "first-" + r, "ia": [], "ib": []})
            continue
        for rb in PAIR_B:
            r, ib = _outcome(lambda: read_all(rb, tns, pcodes))
            ev["pairs"].append({"a": ra, "b": rb, "raised": r, "ia": ia, "ib": ib or []})

    nb = len([b for b in doc["blocks"] if b["kind"] == "trees"])
    ms = max([len(b["stmts"]) for b in doc["blocks"] if b["kind"] == "trees"] + [0])
    light = grid == "light"
    if grid == "full":
        OFFS = [(c, t) for c in _offs(nb) for t in _offs(ms)]
    elif grid == "edge":
        OFFS = [(c, t) for c in sorted(set([NOOFF, 0, -1, nb - 1, nb, -(nb + 1)])) for t in sorted(set([NOOFF, 0, -1, ms - 1, ms, -(ms + 1)]))]
    else:
        OFFS = sorted(set([(NOOFF, NOOFF), (0, NOOFF), (-1, -1), (nb - 1, 0), (nb, 0), (0, ms), (-nb, -ms), (NOOFF, ms - 1)]))

    # ---- Tree.yield_from_files (documented: no tree_offset)
    for src in (("data", "path") if light else ("data", "file", "path")):
        # the yielder takes file objects or paths; "data" is the string wrapped in a stream
        f = io.StringIO(text) if src == "data" else (open(path, "r") if src == "file" else path)

        def consume():
            out = []
            for tr in dendropy.Tree.yield_from_files(files=[f], schema=fmt, **dict(nskw, **kw)):
                out.append(pool.add(x_c13.tree_view(tr, codes_for(tr.taxon_namespace))))
            return out
        r, items = _outcome(consume)
        if src == "file":
            try:
                f.close()
            except Exception:
                pass
        add_call("YieldFromFiles", NOOFF, NOOFF, src, r, items or [])

    def consume2():
        out = []
        for tr in dendropy.Tree.yield_from_files(files=[path, io.StringIO(text)], schema=fmt, **dict(nskw, **kw)):
            out.append(pool.add(x_c13.tree_view(tr, codes_for(tr.taxon_namespace))))
        return out
    r, items = _outcome(consume2)
    add_call("YieldFromTwoFiles", NOOFF, NOOFF, "data", r, items or [])

    # ---- TreeArray.read: structures only; needs taxa on the leaves and only there; one namespace for the bits
    if shared and not opts.get("suppress_leaf_node_taxa") and opts.get("suppress_internal_node_taxa", True):
        ntot = sum(len(c) for c in colls)
        TA = [(NOOFF, "data"), (0, "data")] + ([] if light else [(NOOFF, "stream"), (NOOFF, "path")])
        if nb <= 1 and not light:
            TA += [(1, "data"), (ntot, "data"), (ntot + 1, "data")]
        for (t, src) in TA:
            ta = dendropy.TreeArray(taxon_namespace=ns)
            skw = src_kw(src)
            r, _ = _outcome(lambda: ta.read(schema=fmt, **dict(skw, **dict(_offkw(NOOFF, t), **kw))))
            close(skw)
            trees = []
            if not r:
                for i in range(len(ta)):
                    splits = [proj.codes_of_mask(s) for s in ta._tree_split_bitmasks[i]]
                    w = proj.rat(ta._tree_weights[i], max_den=10 ** 4)
                    trees.append({"splits": splits, "w": [w[0], w[1]] if w[2] else [-1, -1]})
            rt = ta.is_rooted_trees
            ev["arrays"].append({"t": t, "src": src, "raised": r, "rooted": -1 if rt is None else (1 if rt else 0), "trees": trees})

    # ---- <Type>CharacterMatrix.get(matrix_offset) vs the matrix inside the data set: every class x every offset
    nc = len([b for b in doc["blocks"] if b["kind"] == "chars"])
    if fmt != "newick":
        CLS = {"dna": dendropy.DnaCharacterMatrix, "standard": dendropy.StandardCharacterMatrix}
        if not nc:
            MO = [("dna", NOOFF, "data")]
        elif light:
            MO = sorted(set([("dna", NOOFF, "data"), ("standard", NOOFF, "data"), ("dna", 1, "data"), ("dna", nc - 1, "data"), ("standard", 1, "data"),
                             ("dna", -1, "data"), ("dna", nc, "data"), ("standard", -(nc + 1), "data"), ("dna", 1, "path")]))
        else:
            MO = [(cl, m, "data") for cl in ("dna", "standard") for m in _offs(nc)]
            MO += [(cl, m, src) for cl in ("dna", "standard") for m in (NOOFF, 1) for src in ("stream", "file", "path")]
        for (cl, m, src) in MO:
            skw = src_kw(src)
            mk = {} if m == NOOFF else {"matrix_offset": m}
            r, cm = _outcome(lambda: CLS[cl].get(schema=fmt, **dict(skw, **dict(mk, **dict(nskw, **kw)))))
            close(skw)
            item = 0
            if not r:
                item = mpool.add(x_c13.matrix_view(cm, codes_for(cm.taxon_namespace)))
            ev["mcalls"].append({"cls": cl, "m": m, "src": src, "raised": r, "item": item})

    # ---- the list routes last: with NeXML they add new taxa to a shared namespace (known finding), which would
    # otherwise change what the label-matching routes above see
    # ---- TreeList.get, Tree.get over the offset grid
    for (c, t) in OFFS:
        r, tl = _outcome(lambda: dendropy.TreeList.get(data=text, schema=fmt, **dict(_offkw(c, t), **dict(nskw, **kw))))
        add_call("TreeListGet", c, t, "data", r, list_views(tl) if not r else [])
        r, tr = _outcome(lambda: dendropy.Tree.get(data=text, schema=fmt, **dict(_offkw(c, t), **dict(nskw, **kw))))
        items = []
        if not r and tr is not None:
            items = [pool.add(x_c13.tree_view(tr, codes_for(tr.taxon_namespace)))]
        add_call("TreeGet", c, t, "data", r, items)
    for src in (("path",) if light else ("stream", "file", "path")):
        for (c, t) in (((-1, -1),) if light else ((NOOFF, NOOFF), (-1, -1))):
            skw = src_kw(src)
            r, tl = _outcome(lambda: dendropy.TreeList.get(schema=fmt, **dict(skw, **dict(_offkw(c, t), **dict(nskw, **kw)))))
            close(skw)
            add_call("TreeListGet", c, t, src, r, list_views(tl) if not r else [])
            skw = src_kw(src)
            r, tr = _outcome(lambda: dendropy.Tree.get(schema=fmt, **dict(skw, **dict(_offkw(c, t), **dict(nskw, **kw)))))
            close(skw)
            items = []
            if not r and tr is not None:
                items = [pool.add(x_c13.tree_view(tr, codes_for(tr.taxon_namespace)))]
            add_call("TreeGet", c, t, src, r, items)

    # ---- TreeList.read into an existing list (already holding the whole source)
    combos = [(NOOFF, NOOFF, "data"), (0, NOOFF, "data"), (-1, 0, "data"), (NOOFF, 1, "data"), (nb - 1, -1, "data"),
              (nb, NOOFF, "data"), (0, ms, "data"), (NOOFF, NOOFF, "stream"), (NOOFF, NOOFF, "file"), (NOOFF, NOOFF, "path"),
              (-1, 0, "path"), (NOOFF, 1, "stream")]
    if light:
        combos = [(NOOFF, NOOFF, "data"), (-1, 0, "data"), (nb, NOOFF, "data"), (-1, 0, "path")]
    for (c, t, src) in combos:
        tl = dendropy.TreeList(**nskw)
        r0, _ = _outcome(lambda: tl.read(data=text, schema=fmt, **kw))
        if r0:
            add_call("TreeListRead", c, t, src, "prefill-" + r0, [])
            continue
        pre = list_views(tl)
        skw = src_kw(src)
        r, n = _outcome(lambda: tl.read(schema=fmt, **dict(skw, **dict(_offkw(c, t), **kw))))
        close(skw)
        add_call("TreeListRead", c, t, src, r, list_views(tl), pre=pre, n=n if isinstance(n, int) else -1)

    return ev


def _cases_for(doc, k, tmp, seed, kind, quick):
    cases = []
    PA = ("TreeListGet", "DataSetGet", "YieldFromFiles", "TreeListRead")
    for render in x_c13.formats_of(doc):
        fmt = x_c13.SCHEMA[render]
        osets = optsets(fmt)
        rot = osets[1 + (k + seed) % (len(osets) - 1)]
        base = {"doc": doc, "fmt": fmt, "render": render, "tmp": tmp, "kind": kind}
        # two-read pairs: every first route for the NeXML renderings, one rotating first route for the text schemas
        pairs = list(PA) if fmt == "nexml" else [PA[k % len(PA)]]
        cases.append(dict(base, opts={}, shared=True, grid="full" if kind == "model" else "edge", pairs=pairs, key="%d_%s_a" % (k, render)))
        if quick and k % 2 == 0:
            cases.append(dict(base, opts=rot, shared=True, grid="light", key="%d_%s_b" % (k, render)))
        if not quick:
            cases.append(dict(base, opts=rot, shared=True, grid="edge", pairs=[PA[(k + 1) % len(PA)]], key="%d_%s_b" % (k, render)))
        # separate namespaces: a case-sensitive read needs a case-sensitive namespace supplied by the caller (documented
        # ValueError otherwise), so that option is only used in the shared-namespace cases.  Not for "nexml2": a data set
        # keeps one namespace per <otus> block (documented), a tree list has one namespace - no common taxa to compare.
        if render != "nexml2" and (not quick or k % 2 == 1):
            own = {} if k % 4 < 2 else {o: v for o, v in rot.items() if o != "case_sensitive_taxon_labels"}
            cases.append(dict(base, opts=own, shared=False, grid="light" if quick else "edge", key="%d_%s_c" % (k, render)))
    return cases


def run(ctx):
    dump = os.path.join(ctx.work, "routes.dump")
    ctx.model("MC_ReadRoutes", "MC_ReadRoutes_quick.cfg" if ctx.quick else "MC_ReadRoutes_thorough.cfg", extra=("-dump", dump))
    ctx.model("MC_ReadRoutes", "AsShipped_ReadRoutes_names.cfg", expect_violation="Names", count=False, workers=2)
    ctx.model("MC_ReadRoutes", "AsShipped_ReadRoutes_taxa.cfg", expect_violation="Taxa", count=False, workers=2)
    states = tlaval.read_dump(dump + ".dump" if os.path.exists(dump + ".dump") else dump)
    for p in (dump, dump + ".dump"):
        if os.path.exists(p):
            os.remove(p)
    docs = [s["doc"] for s in states if s["doc"]["blocks"]]
    cases = []
    for k, doc in enumerate(docs):
        cases.extend(_cases_for(doc, k, ctx.work, ctx.seed, "model", ctx.quick))
    nmodel = len(cases)
    rng = random.Random(ctx.seed * 1000003 + 13)
    nrand = 40 if ctx.quick else 1500
    for k in range(nrand):
        cases.extend(_cases_for(x_c13.random_doc(rng), 100000 + k, ctx.work, ctx.seed, "random", True))
    driven = ctx.drive(cases, run_case, chunksize=4)
    invalid = [(c, e[0]["ref"]) for c, e in driven if e[0]["ref"]["raised"] and e[0]["ref"]["alt"]]
    if invalid:
        c, r = invalid[0]
        raise core.MachineryError("%d rendered document(s) are rejected by the data-set route AND the tree-list route (%s / %s): the harness "
                                  "renderer produced an invalid document, e.g. %s" % (len(invalid), r["raised"], r["alt"],
                                                                                      core.dumps({k: v for k, v in c.items() if k != "tmp"})[:1500]))
    ctx.judge("Trace_ReadRoutes", driven, batch=300 if ctx.quick else 600, heap="2g")
    ncalls = 0
    under = 0
    for case, evs in driven:
        e = evs[0]
        ncalls += len(e["calls"]) + len(e["arrays"]) + len(e["mcalls"]) + 1
        lens = [len(c) for c in e["ref"]["colls"]]
        for c in e["calls"]:
            if c["route"] == "TreeListGet" and c["t"] != NOOFF and c["t"] < 0 and c["raised"] == "" and lens:
                cc = 0 if c["c"] == NOOFF else c["c"]
                if -len(lens) <= cc < len(lens) and c["t"] < -lens[cc]:
                    under += 1
        if sum(lens) >= 2:
            shape = [[b["kind"], b.get("translate", False), len(b.get("stmts", []))] for b in case["doc"]["blocks"]]
            ctx.add_nontrivial([case["fmt"], case["shared"], sorted(case["opts"].items()), shape,
                                [[s["rt"], s["w"], len(s["cpre"]), len(s["cpost"]), len(s["cin"]), len(s["caft"])]
                                 for b in case["doc"]["blocks"] if b["kind"] == "trees" for s in b["stmts"]]])
    ctx.drift["TreeList.get tree_offset below -len returned the whole collection instead of IndexError (left free)"] = under
    ctx.extra["route_calls_judged"] = ncalls
    psize, cpos = (3, "{1}") if ctx.quick else (5, "{0,1,2}")
    ctx.rule = ("every document of TLC's dump of MC_ReadRoutes (%d documents: <= 2 TREES blocks x 0..2 statements from the first %d statement "
                "variants, each block with/without TRANSLATE, CHARACTERS blocks of different data types (STANDARD, DNA, DNA + SETS) at position %s) x every schema it can be written in "
                "(NEXUS always; Newick: one block without TRANSLATE; NeXML: no TRANSLATE, no labels differing by case only inside one <otus>; "
                "NeXML also with one <otus> block per TREES block sharing labels) x "
                "[a] shared namespace, default options, every (collection_offset, tree_offset) in (None, -(n+1)..n)^2, and two consecutive reads "
                "into one fresh namespace (first route A, then each route B); "
                "[b] shared namespace, one rotating option set; [c] separate namespaces (quick tier: b and c alternate over the documents) "
                "= %d cases; + %d seeded random documents (1-4 TREES blocks, 0-5 statements, 3-8 leaves, 0-2 CHARACTERS blocks) x the same = %d cases; "
                "one case = one source text read through every route (TreeList.get, Tree.get, TreeList.read, Tree.yield_from_files, "
                "TreeArray.read, DataSet.get/read, Dna/StandardCharacterMatrix.get with every matrix_offset; data=/file=/path=); distinct_nontrivial = distinct "
                "(schema, namespace mode, option set, block shape, statement attributes) with at least two delivered trees"
                % (len(docs), psize, cpos, nmodel, nrand, len(cases) - nmodel))
    ctx.exhaustive = True
    ctx.extra["exhaustive_domain"] = ("all %d documents of the bounded model (see rule), each under the default option set with all offsets; "
                                      "option sets beyond the default rotate over the documents (not exhaustive in the option dimension)" % len(docs))
    ctx.assumptions.append("the harness renderer (vlib/x_c13.py) writes the abstract document as valid NEXUS/Newick/NeXML text")
    ctx.assumptions.append("TreeArray is compared on split sets, weights and rooting only (documented: structures only) and only where every leaf and no internal node carries a taxon")
    if driven:
        ctx.add_sample({"case": {k: v for k, v in driven[len(driven) // 3][0].items() if k != "tmp"},
                        "calls": len(driven[len(driven) // 3][1][0]["calls"])})
        ctx.add_sample({"case": {k: v for k, v in driven[-1][0].items() if k != "tmp"}, "calls": len(driven[-1][1][0]["calls"])})


def replay(ctx, rec):
    case = dict(rec["case"])
    case["tmp"] = ctx.work
    driven = ctx.drive([case], run_case, parallel=False)
    ctx.judge("Trace_ReadRoutes", driven)
    ctx.rule = "replay of one recorded case"
    ctx.add_sample({"case": {k: v for k, v in case.items() if k != "tmp"}})
