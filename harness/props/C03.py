"""C03 - trees stay well-formed arborescences under every history of mutating operations.

spec/TreeOps.tla      the public mutators of Tree/Node/Edge as pure operators on the raw-pointer graph
                      form, and the property clauses
spec/MC_TreeOps.tla   bounded model: every operation history to a depth from every small start tree (TLC
                      checks the clauses as invariants / action properties; AsShipped_* cfgs: TLC must find
                      the shipped defects)
spec/Trace_TreeOps.tla  TLC judges every logged real call (also when it raised)
Binding: one real execution per transition of the dumped state graphs (shortest model path, then the
edge, arguments resolved by node key) + seeded random histories on larger trees.  No oracle in Python.
"""
from vlib import x_treeops as X

ID = "C03"
run_case = X.run_case


def run(ctx):
    quick = ctx.quick
    # non-vacuity: with the shipped rules switched on TLC must find the violations
    ctx.model("MC_TreeOps", "AsShipped_TreeOps_F02.cfg", expect_violation="C03_Outcome", count=False)
    ctx.model("MC_TreeOps", "AsShipped_TreeOps_F03_C03.cfg", expect_violation="C03_LeafMultiset", count=False)
    cases, nedges = [], 0
    for cfg, tag, cap in X.c03_cfgs(quick):
        cs, ne = X.model_cases(ctx, "C03", cfg, tag, max_cases=cap)
        cases += cs
        nedges += ne
    nrand = 120 if quick else 1500
    rnd = X.random_cases(ctx, "C03", nrand, 30, salt=3)
    X.drive_and_judge(ctx, "C03", cases, rnd)
    ctx.rule = ("cases = one real execution per transition of the TLC state graphs of MC_TreeOps (%d transitions: every "
                "operation/argument/option from every start tree with <= 4 leaves, both rootings, length patterns "
                "none/unit/mixed-with-zero, histories to depth %d) + %d seeded random histories of 30 calls on trees with "
                "5-12 leaves; distinct_nontrivial = distinct (action, arguments, options, pre-state graph) whose call "
                "changed the pointer graph or raised" % (nedges, 2 if quick else 3, nrand))
    ctx.exhaustive = False
    ctx.extra["model_transitions_replayed"] = len(cases)
    ctx.assumptions.append("calls stay within documented preconditions: reseed/reroot targets are internal nodes, "
                           "reroot_at_midpoint only on trees whose non-seed edges all have lengths and whose leaves carry "
                           "distinct taxa, pruning never removes every taxon, taxa sit on leaves only, rooting flag is True/False")


def replay(ctx, rec):
    driven = ctx.drive([rec["case"]], run_case, parallel=False)
    X.judge(ctx, "C03", driven)
    ctx.rule = "replay of one recorded case"
    ctx.add_sample({"case": rec["case"]})
