"""C07 - re-rooting and re-orienting never change the underlying unrooted tree.

Same specification module and trace module as C03 (spec/TreeOps.tla, MC_TreeOps.tla, Trace_TreeOps.tla);
here the model contains the reorientation operations only, over many more edge-length patterns (equal,
zero, integral lengths: ties and midpoints on nodes are the norm), and the judge evaluates the C07 clauses:
leaf set, unrooted splits, total length and all leaf-to-leaf path lengths unchanged; midpoint
equidistance; reroot_at_edge distances; outgroup first child; soft/hard rooting flag.
"""
from vlib import x_treeops as X

ID = "C07"
run_case = X.run_case


def run(ctx):
    quick = ctx.quick
    # non-vacuity: with the shipped midpoint rule TLC must find a violation of the midpoint post-condition
    ctx.model("MC_TreeOps", "AsShipped_TreeOps_F03_C07.cfg", expect_violation="C07_Post", count=False)
    cases, nedges = [], 0
    for cfg, tag, cap in X.c07_cfgs(quick):
        cs, ne = X.model_cases(ctx, "C07", cfg, tag, max_cases=cap)
        cases += cs
        nedges += ne
    nrand = 120 if quick else 1500
    rnd = X.random_cases(ctx, "C07", nrand, 30, salt=7)
    X.drive_and_judge(ctx, "C07", cases, rnd)
    ctx.rule = ("cases = one real execution per transition of the TLC state graphs of MC_TreeOps restricted to the "
                "reorientation operations (%d transitions: every target node/edge/outgroup, every option triple, requested "
                "edge lengths, from every start tree with <= 4 leaves, both rootings, edge-length patterns incl. all-equal, "
                "all-zero, mixed 0/1/2, root edge length, none; histories to depth %d) + %d seeded random histories of 30 "
                "reorientations on trees with 5-12 leaves; distinct_nontrivial = distinct (action, arguments, options, "
                "pre-state graph) whose call changed the pointer graph or raised" % (nedges, 2 if quick else 3, nrand))
    ctx.exhaustive = False
    ctx.extra["model_transitions_replayed"] = len(cases)
    ctx.assumptions.append("reseed/reroot targets are internal nodes (as documented); reroot_at_midpoint only on trees whose "
                           "non-seed edges all have lengths and whose leaves carry distinct taxa; metric clauses are judged on "
                           "trees whose non-seed edges all have lengths (or none has) and whose lengths are exact multiples "
                           "of 1/16; rooting flag True/False (None not explored)")


def replay(ctx, rec):
    driven = ctx.drive([rec["case"]], run_case, parallel=False)
    X.judge(ctx, "C07", driven)
    ctx.rule = "replay of one recorded case"
    ctx.add_sample({"case": rec["case"]})
