"""C20 - readers terminate on every input and report bad data as a parse error.

Models (TLC): spec/NexusReaderCtl.tla (PlusCal transcription of the NEXUS
reader's control skeleton over token classes with an explicit EOF),
spec/NewickGrammar.tla (tree statement pushdown machine), spec/LineReaders.tla
(PHYLIP / FASTA automata): Termination, OutcomeDocumented, DimsConsistent on
base documents x truncations x single edits (+ pumped documents; double edits
and random token strings by simulation in the thorough tier); the AsShipped_*
configurations put the shipped end-of-stream handling back and TLC must find
the lasso / the bad outcome.

Binding: spec/MC_ReaderInputs.tla (TLC) enumerates the inputs; the harness
renders them (class representatives, vlib/x_c20.render), adds every
character-level prefix and every single-character deletion / blanking of every
rendered valid document and expands the pump descriptors, reads each text through Tree.get / TreeList.get / DataSet.get /
<X>CharacterMatrix.get / Tree.yield_from_files under the deterministic step
budget and logs what happened.  spec/Trace_Readers.tla (TLC) judges every
event: Terminates, NoInternalError, ErrorIsDataParseFamily, ResultWellFormed,
DimsConsistent.  No oracle on the Python side.

Development aid (never set by ./check or the registered commands): with
VERIF_C20_DOCS=<doc,doc,...> only the inputs derived from those base documents
are driven and judged, and VERIF_C20_NOMODEL=1 skips the (repository
independent) reader model runs; used with tools/try_patch.sh to look at one
repair or mutant quickly.  Such a run is marked in the evidence.
"""
import hashlib
import json
import os
import re
import threading

from vlib import core, x_c20
from vlib import tlc as _tlc
from vlib.tlc import MachineryError

ID = "C20"
TREE_ENTRIES = ["Tree.get", "TreeList.get", "Tree.yield_from_files"]


# ---------------------------------------------------------------- driving
def run_case(case):
    import dendropy
    fam = case["fam"]
    if "text" in case:
        text = case["text"]
        toks = x_c20.split_tokens(text)
    else:
        toks = case["toks"]
        full = x_c20.expand_pump(toks, case["at"], case["ptok"], case["k"]) if case["k"] else toks
        text = x_c20.render(full)
    evs = []
    # default options through every applicable entry point, then the rotated option rows
    # (the source kind - data=, file=StringIO / named file / descriptor stream, path= - rotates too)
    reads = [(e, 0, None, sk) for e, sk in zip(case["entries"], case.get("srcs") or ["data"] * len(case["entries"]))] \
        + [(e, ri, row, sk) for e, ri, row, sk in case.get("extra", [])]
    for entry, ri, row, sk in reads:
        opts = {"data_type": case["dtype"], "strict": case["strict"], "interleaved": case["inter"], "row": row, "rowidx": ri, "src": sk}
        ev = x_c20.run_entry(dendropy, entry, fam, text, opts, pump_k=case["k"])
        inter = x_c20.reader_kwargs(fam, opts).get("interleaved", bool(case["inter"]))
        # the token sequence is only needed by the judge for the dimension clauses
        ev.update({"toks": toks if ev["mats"] else [], "at": case["at"], "ptok": case["ptok"], "k": case["k"],
                   "inter": bool(inter), "doc": case["doc"], "ikind": case["kind"], "opt": ri})
        evs.append(ev)
    return evs


def entries_for(case, base_has, quick):
    fam, kind = case["fam"], case["kind"]
    has_trees, has_matrix = base_has[case["doc"]]
    if fam in ("phylip", "fasta"):
        return ["DataSet.get", "Matrix.get"]
    if fam == "newick":
        if kind == "string" and quick:
            return ["TreeList.get", "Tree.yield_from_files"]
        if kind == "pump":
            return ["TreeList.get", "Tree.yield_from_files"]
        return ["Tree.get", "TreeList.get", "DataSet.get", "Tree.yield_from_files"]
    # nexus
    if kind == "pump":
        return ["DataSet.get"] + (["Tree.yield_from_files"] if has_trees else []) + (["Matrix.get"] if has_matrix else [])
    if kind in ("base", "trunc", "charprefix") or not quick:
        return ["DataSet.get", "Tree.get", "TreeList.get", "Tree.yield_from_files", "Matrix.get"]
    return ["DataSet.get"] + (TREE_ENTRIES if has_trees else []) + (["Matrix.get"] if has_matrix else [])


def option_reads(case, idx, rows, base_has):
    """The non-default option rows a case is read under (spec/ReaderInputs.tla, written by TLC next
    to the inputs): truncations under every row, character prefixes under one row, every second other
    input under one row, rotating with the position of the case; each through a rotating entry."""
    fam, kind = case["fam"], case["kind"]
    if kind == "pump":
        return []
    has_trees, has_matrix = base_has[case["doc"]]
    rr = rows["line"] if fam in ("phylip", "fasta") else rows["tree"]
    n = len(rr) - 1
    if fam in ("phylip", "fasta"):
        ents = ["DataSet.get", "Matrix.get"]
    elif fam == "newick":
        ents = ["TreeList.get", "Tree.yield_from_files", "Tree.get", "DataSet.get"]
    else:
        ents = ["DataSet.get"] + (["Tree.yield_from_files", "TreeList.get"] if has_trees else []) + (["Matrix.get"] if has_matrix else [])
    if kind in ("base", "trunc"):
        ris = list(range(1, n + 1))
    elif kind == "charprefix":
        ris = [1 + idx % n]
    elif idx % 2 == 0:
        ris = [1 + (idx // 2) % n]
    else:
        ris = []
    out = []
    for j, ri in enumerate(ris):
        k = 2 if kind in ("base", "trunc", "charprefix") else 1
        for m in range(k):
            out.append([ents[(idx + j + m) % len(ents)], ri, rr[ri], x_c20.SOURCE_KINDS[(idx + j + 2 * m + 1) % len(x_c20.SOURCE_KINDS)]])
    return out


def load_cases(path, quick):
    with open(path + ".opts") as f:
        rows = json.load(f)
    raw = []
    with open(path) as f:
        for line in f:
            line = line.strip()
            if line:
                raw.append(json.loads(line))
    base_has = {"strings": (True, False)}
    for c in raw:
        if c["kind"] == "base":
            base_has[c["doc"]] = ("TREE" in c["toks"] or c["fam"] == "newick", "MATRIX" in c["toks"] or c["fam"] in ("phylip", "fasta"))
    order = {"base": 0, "trunc": 1, "del": 2, "ins": 3, "rep": 4, "span": 5, "kw": 6, "string": 7, "pump": 8, "double": 9}
    raw.sort(key=lambda c: (c["fam"], c["doc"], order.get(c["kind"], 99), c["at"], c["ptok"], c["k"], c["toks"]))
    seen = set()
    cases = []
    per_kind = {}
    for c in raw:
        key = (c["fam"], tuple(c["toks"]), c["at"], c["ptok"], c["k"], c["dtype"], c["strict"], c["inter"])
        if key in seen:
            continue
        seen.add(key)
        c["entries"] = entries_for(c, base_has, quick)
        cases.append(c)
        per_kind[c["kind"]] = per_kind.get(c["kind"], 0) + 1
    # every character-level prefix of every rendered valid document (interrupted write)
    nprefix = 0
    for c in [c for c in cases if c["kind"] == "base"]:
        text = x_c20.render(c["toks"])
        for k in range(len(text) + 1):
            p = dict(c)
            p.pop("toks")
            p.update({"kind": "charprefix", "text": text[:k], "cut": k})
            p["entries"] = entries_for(p, base_has, quick)
            cases.append(p)
            nprefix += 1
    per_kind["charprefix"] = nprefix
    # local corruption at the character level: every single character deleted / overwritten by a blank
    nedit = 0
    for c in [c for c in cases if c["kind"] == "base"]:
        text = x_c20.render(c["toks"])
        seen_t = set([text])
        for k in range(len(text)):
            for kind, t in (("chardel", text[:k] + text[k + 1:]), ("charblank", text[:k] + " " + text[k + 1:])):
                if t in seen_t:
                    continue
                seen_t.add(t)
                p = dict(c)
                p.pop("toks")
                p.update({"kind": kind, "text": t, "cut": k})
                p["entries"] = entries_for(p, base_has, quick)
                cases.append(p)
                nedit += 1
    per_kind["charedit"] = nedit
    for idx, c in enumerate(cases):
        c["extra"] = option_reads(c, idx, rows, base_has)
        # default-option reads of the truncations and character level corruptions rotate the source kind too
        if c["kind"] in ("trunc", "charprefix", "chardel", "charblank"):
            c["srcs"] = [x_c20.SOURCE_KINDS[(idx + j) % len(x_c20.SOURCE_KINDS)] for j in range(len(c["entries"]))]
    per_kind["option_reads"] = sum(len(c["extra"]) for c in cases)
    return cases, per_kind, len(raw)


# ---------------------------------------------------------------- model runs
_OUT = re.compile(r'^C20OUT (\w+) (\d+) (\d+) <<(.*)>>$')


def _model_outcomes(stdout):
    """TLC prints, at every terminal state of a reader model, the model's answer
    for that input: "C20OUT <outcome> <ntrees> <nmatrices> <input>" (a TLA+ string)."""
    out = {}
    for line in stdout.splitlines():
        line = line.strip()
        if not line.startswith('"C20OUT '):
            continue
        try:
            m = _OUT.match(json.loads(line))
            toks = tuple(json.loads("[" + m.group(4) + "]"))
        except Exception as ex:
            raise MachineryError("cannot parse model output line %r (%s)" % (line[:200], ex))
        out[toks] = (m.group(1), int(m.group(2)), int(m.group(3)))
    return out


def expect_lasso(ctx, module, cfg, prop, workers=8):
    """As-shipped configuration: TLC must find a behaviour that violates the
    liveness property (this TLC prints "Temporal property <P> was violated",
    which vlib.tlc does not recognise, so the run is classified here)."""
    r = _tlc.run_tlc(module, cfg, ctx.work, workers=workers)
    d = r.as_dict()
    found = re.search(r"Error: Temporal propert(?:y %s was|ies were) violated" % re.escape(prop), r.stdout) is not None
    lasso = re.search(r"^(State \d+: Stuttering|Back to state \d+)", r.stdout, re.M) is not None
    d.update({"module": module, "cfg": cfg, "expect_violation": prop, "violated": prop if found else None})
    ctx.model_runs.append(d)
    if not (found and lasso):
        raise MachineryError("%s/%s: expected TLC to find a lasso violating %s, got rc=%s\n%s"
                             % (module, cfg, prop, r.returncode, r.tail(40)))
    ctx.expected_model_violations.append("%s/%s: %s (lasso)" % (module, cfg, prop))
    ctx.log("model %s %s: lasso violating %s found as expected (%d distinct states, %.1fs)"
            % (module, cfg, prop, r.distinct, r.wall_s))


def model_runs(ctx, box):
    """All TLC model runs of the tier (run in a thread next to the driving)."""
    try:
        t = "quick" if ctx.quick else "thorough"
        w = 8
        r = ctx.model("MC_NexusReaderCtl", "MC_NexusReaderCtl_%s.cfg" % t, workers=12)
        box["nexus"] = _model_outcomes(r.stdout)
        r = ctx.model("MC_NewickGrammar", "MC_NewickGrammar_%s.cfg" % t, workers=w)
        r = ctx.model("MC_LineReaders", "MC_LineReaders_%s.cfg" % t, workers=4)
        box["line"] = _model_outcomes(r.stdout)
        expect_lasso(ctx, "MC_NexusReaderCtl", "AsShipped_NexusReaderCtl.cfg", "Termination", workers=w)
        ctx.model("MC_NexusReaderCtl", "AsShipped_NexusReaderCtl_outcome.cfg", workers=4, expect_violation="OutcomeDocumented", count=False)
        ctx.model("MC_NexusReaderCtl", "AsShipped_NexusReaderCtl_dims.cfg", workers=4, expect_violation="DimsConsistent", count=False)
        ctx.model("MC_NexusReaderCtl", "AsShipped_NexusReaderCtl_tok.cfg", workers=4, expect_violation="TokDepthBounded", count=False)
        ctx.model("MC_NewickGrammar", "AsShipped_NewickGrammar.cfg", workers=4, expect_violation="OutcomeDocumented", count=False)
        ctx.model("MC_LineReaders", "AsShipped_LineReaders.cfg", workers=4, expect_violation="DimsConsistent", count=False)
        if not ctx.quick:
            # the option terminating_semicolon_required=False on the quick input set
            ctx.model("MC_NexusReaderCtl", "MC_NexusReaderCtl_nosemicolon.cfg", workers=12)
            # double edits and random token strings: random behaviours, Termination checked on each
            ctx.model("MC_NexusReaderCtl", "Sim_NexusReaderCtl.cfg", workers=8, simulate="num=1000", extra=("-depth", "170", "-seed", str(ctx.seed + 20)))
            ctx.model("MC_NexusReaderCtl", "Sim_NexusReaderCtl_strings.cfg", workers=8, simulate="num=3000", extra=("-depth", "120", "-seed", str(ctx.seed + 22)))
            ctx.model("MC_NewickGrammar", "Sim_NewickGrammar.cfg", workers=8, simulate="num=4000", extra=("-depth", "120", "-seed", str(ctx.seed + 21)))
    except BaseException as ex:      # re-raised by the main thread
        box["error"] = ex


# ---------------------------------------------------------------- run
def _sig(e):
    if e["kind"] == "ok":
        return "Ok"
    if e["kind"] == "hang":
        return "Hang@" + e["site"]
    return e["exc"] + "@" + e["site"]


def run(ctx):
    t = "quick" if ctx.quick else "thorough"
    box = {}
    only_docs = [d for d in os.environ.get("VERIF_C20_DOCS", "").split(",") if d]
    nomodel = os.environ.get("VERIF_C20_NOMODEL", "") == "1"
    th = threading.Thread(target=(lambda c, b: None) if nomodel else model_runs, args=(ctx, box))
    th.start()
    try:
        gen = os.path.join(ctx.work, "inputs.ndjson")
        ctx.model("MC_ReaderInputs", "MC_ReaderInputs_%s.cfg" % t, workers=1, env={"OUT_FILE": gen},
                  extra=("-seed", str(ctx.seed + 2020)), count=False)
        cases, per_kind, nraw = load_cases(gen, ctx.quick)
        if only_docs:
            cases = [c for c in cases if c["doc"] in only_docs]
            ctx.assumptions.append("RESTRICTED development run: only documents %s%s" % (only_docs, ", reader models skipped" if nomodel else ""))
        ctx.log("TLC generated %d inputs (%d after removing duplicates), + %d character-level prefixes and %d single-character edits: %s"
                % (nraw, len(cases) - per_kind["charprefix"] - per_kind["charedit"], per_kind["charprefix"], per_kind["charedit"],
                   json.dumps(per_kind, sort_keys=True)))
        driven = ctx.drive(cases, run_case, chunksize=4)
        ctx.judge("Trace_Readers", driven, batch=2500)
    finally:
        th.join()
    if "error" in box:
        raise box["error"]

    # ---- evidence, drift (never a verdict)
    sigs = {}
    headroom = 0.0
    big = 0
    agree = {"same": 0, "model_ok_real_error": 0, "model_error_real_ok": 0, "real_defect": 0, "not_modelled": 0}
    samples_diff = []
    for case, evs in driven:
        for e in evs:
            s = _sig(e)
            key = "%s|%s|%s" % (e["fam"], e["entry"], s)
            sigs[key] = sigs.get(key, 0) + 1
            big += e["big"]
            if e["kind"] != "hang":
                headroom = max(headroom, e["steps"] / float(e["limit"]))
            if case["kind"] != "base":
                ctx.add_nontrivial(hashlib.sha1(("%s|%s|%s|%s|%s|%s|%s" % (e["fam"], e["entry"], case.get("text", ""), case.get("toks", ""), e["ptok"], e["k"], e["opt"])).encode()).hexdigest()[:16])
            # model outcome vs real outcome (reader level)
            ref = None
            if e["k"] == 0 and "text" not in case and e["opt"] == 0:
                if e["fam"] == "nexus" and e["entry"] == "DataSet.get":
                    ref = box.get("nexus", {}).get(tuple(case["toks"]))
                elif e["fam"] in ("phylip", "fasta") and e["entry"] == "DataSet.get":
                    ref = box.get("line", {}).get(tuple(case["toks"]))
            if ref is None:
                agree["not_modelled"] += 1
            elif e["kind"] == "hang" or (e["kind"] == "exc" and "DataParseError" not in e["mro"]):
                agree["real_defect"] += 1
            else:
                real = "Ok" if e["kind"] == "ok" else "ParseError"
                if real == ref[0]:
                    agree["same"] += 1
                else:
                    k = "model_ok_real_error" if ref[0] == "Ok" else "model_error_real_ok"
                    agree[k] += 1
                    if len(samples_diff) < 6:
                        samples_diff.append({"toks": " ".join(case["toks"]), "model": ref[0], "real": _sig(e)})
    ctx.drift["model_vs_real_outcome"] = agree
    ctx.drift["model_vs_real_samples"] = samples_diff
    ctx.extra["outcome_signatures"] = dict(sorted(sigs.items()))
    ctx.extra["inputs_per_kind"] = per_kind
    ctx.extra["max_steps_over_budget_of_terminating_reads"] = round(headroom, 4)
    ctx.extra["trees_too_big_to_log"] = big
    ctx.rule = ("inputs enumerated by TLC (MC_ReaderInputs): %d base documents (NEXUS x9 block structures, Newick x3, PHYLIP x4, FASTA x2) "
                "x every token-level truncation x every single edit (delete, insert/replace by a class representative, drop a span, insert a keyword), "
                "all token strings up to the bound over the tree-statement alphabet, pump descriptors (1 token x 10/1100/3000)%s; "
                "+ every character-level prefix and every single-character deletion / blanking of every rendered base document; each read through the applicable entry points "
                "with default reader options (source kind data=, rotating over data= / file=StringIO / named file / descriptor stream / path= for truncations and character-level corruptions), and through rotating entry points and source kinds under the 5 non-default reader option rows (pairwise covering; truncations under all rows). "
                "distinct_nontrivial = distinct (family, entry point, text) with text different from an unmodified base document"
                % (per_kind.get("base", 0), "" if ctx.quick else ", random double edits (RandomSubset)"))
    ctx.exhaustive = not only_docs
    ctx.extra["exhaustive_domain"] = ("all truncation points (token and character level) and all single token edits over the stated alphabets of the %d base documents"
                                      % per_kind.get("base", 0))
    ctx.assumptions.append("hang = more than 40000 + 1000*len(text) + 10*k^2 traced line events inside dendropy (k = pump count); "
                           "largest terminating read used %.2f%% of its budget" % (100 * headroom))
    ctx.assumptions.append("token classes are represented by one concrete token each; character-level effects inside a token are covered only by the character prefixes")
    if big:
        ctx.assumptions.append("%d returned trees had more than %d nodes and were not judged for well-formedness" % (big, x_c20.TREE_NODE_CAP))
    for case, evs in driven:
        if case["kind"] in ("trunc", "charprefix") and evs and evs[0]["kind"] != "ok":
            ctx.add_sample({"case": {k: v for k, v in case.items() if k != "entries"}, "outcome": _sig(evs[0])})
            break
    ctx.add_sample({"case": {k: v for k, v in driven[-1][0].items() if k != "entries"}, "outcome": _sig(driven[-1][1][0])})


def replay(ctx, rec):
    driven = ctx.drive([rec["case"]], run_case, parallel=False)
    ctx.judge("Trace_Readers", driven)
    ctx.rule = "replay of one recorded case"
    ctx.add_sample({"case": rec["case"]})
