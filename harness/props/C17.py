"""C17 - node ages, the ultrametricity check and tree statistics match their definitions.

spec/NodeAges.tla defines depth, tip-distance sets, Ultrametric(t, prec), ages (plain / forced max /
forced min / resolved), EdgeLengthsFromAges, Lineages(t, d) and the statistics (length, N-bar, Sackin,
Colless, B1, treeness as exact rationals; the Pybus-Harvey numerator / T) independently of how the
library computes them.  MC_NodeAges (TLC) checks those definitions on every ordered tree with integer
node heights up to a leaf bound (ultrametric by construction; one tip perturbed by prec-1, prec,
prec+1 units on either side) and dumps that domain.  Every dumped tree is built as a real Tree and
every API named by the property is called with every option combination; Trace_NodeAges (TLC) judges
each observed value against the definition on the projected raw pointers.  Seeded random trees
(6-12 leaves, quarter-unit lengths, several perturbed tips, power-of-two precisions) go the same way.

The Python side contains no oracle.  For the transcendental normalisations (Colless / Sackin "yule"
and "pda", the square root in gamma) the harness only removes the closed-form factor, which depends
on the number of tips alone (DESIGN 5); TLC judges the remaining rational against the exact raw
statistic / the exact gamma numerator / T.
"""
import math
import os
import random
import warnings
from fractions import Fraction

from vlib import core, tlaval, proj, build

ID = "C17"
LS = proj.LSCALE
EULER_GAMMA = 0.5772156649015329
SCALES = [0, -7, 6, -1, 3, -4, 1, -6, 5, -2, 2, -5, 4, -3]
NOLEN = -999999      # sentinel inside `newlen` (None), NOLEN + 1 = not a multiple of 1/LS

QUICK = {"cfgs": ["MC_NodeAges_quick.cfg"], "precs": [1, 2], "nrand": 700}
THOROUGH = {"cfgs": ["MC_NodeAges_thorough.cfg", "MC_NodeAges_thorough_h3.cfg"], "precs": [1, 2, 4], "nrand": 6000}


# ------------------------------------------------------------------ projections (syntactic only)
class Scale(object):
    """A case is built at length scale 2**k: real length = units * 2**k / LS, exact in floating point.
    The projection divides the scale out again (proj.tree_graph(scale=LS / 2**k)), so TLC sees the same
    integer tree at every scale; precisions are ABSOLUTE real numbers and are logged in the projection's
    units (real precision / 2**k), which is what spec/NodeAges.tla compares spreads with."""

    def __init__(self, k):
        self.k = int(k)
        self.S = Fraction(LS) / (Fraction(2) ** self.k)     # units per real length unit
        self.mul = 2.0 ** self.k

    def real(self, units):
        return units * self.mul / LS

    def age(self, v):
        """ages / depths / lengths: integer units, -1 for None, -2 when not exactly representable (or negative)"""
        return proj.scaled_len(v, self.S)

    def sint(self, v):
        """like age() but negative values allowed; None -> NOLEN; not representable -> NOLEN + 1"""
        if v is None:
            return NOLEN
        try:
            f = Fraction(v) * self.S
            if f.denominator != 1 or abs(f) > 10 ** 8:
                return NOLEN + 1
            return int(f)
        except Exception:
            return NOLEN + 1

    def prec_units(self, real_prec):
        """absolute real precision -> [num, den] in projection units over LS (real / 2**k), exact"""
        f = Fraction(real_prec).limit_denominator(10 ** 6) / (Fraction(2) ** self.k)
        return [f.numerator, f.denominator]


def rat(x):
    try:
        return proj.rat(float(x))
    except Exception:
        return [0, 0, False]


# ------------------------------------------------------------------ closed-form factors (functions of the tip count only)
def undo_colless_yule(y, n):
    return y * n + n * math.log(n) + n * (EULER_GAMMA - 1.0 - math.log(2))


def undo_sackin_yule(y, n):
    return y * n + 2.0 * n * sum(1.0 / j for j in range(2, n + 1))


def undo_pda(y, n):
    return y * pow(n, 1.5)


def undo_gamma_sqrt(y, n):
    return y * math.sqrt(1.0 / (12.0 * (n - 2)))


# ------------------------------------------------------------------ building
def permuted(nested, rng):
    lab, tx, ln, kids = nested
    ks = [permuted(k, rng) for k in kids]
    if len(ks) > 1:
        first = ks[0]
        for _ in range(5):
            rng.shuffle(ks)
            if ks[0] is not first:
                break
    return [lab, tx, ln, ks]


def nested_of_case(case, sc):
    par = case["par"]
    nl = build.num_leaves([p - 1 for p in par])
    lens = [None if v < 0 else sc.real(v) for v in case["len"]]
    return build.nested_from_parents(par, list(range(nl)), lens=lens), nl


class Built(object):
    def __init__(self, dendropy, nested, nl, sc):
        self.sc = sc
        self.ns, self.taxa = build.make_namespace(dendropy, max(1, nl))
        self.tree = build.build_tree(dendropy, nested, self.ns, self.taxa, rooted=True)
        self.reproject()

    def reproject(self):
        ids = {}
        self.g = proj.tree_graph(self.tree, scale=self.sc.S, node_ids=ids, labels=False)
        self.order = ids.pop("__order__")
        self.ids = ids
        return self.g

    def per_node(self, fn):
        return [fn(nd) for nd in self.order]

    def reset_ages(self):
        for nd in self.order:
            nd.age = None

    def nleaves(self):
        return sum(1 for k in self.g["kids"] if not k)


def call(fn):
    try:
        return fn(), ""
    except Exception as ex:
        return None, type(ex).__name__


# ------------------------------------------------------------------ histories: every cache populated, then an edit without update
EDITS = ["prune", "move", "reroot", "tips", "scale", "edge", "strip", "strip", "grow", "grow"]


def stale_instance(dendropy, case, nested, nl, sc):
    """A tree on which every cache the library keeps was populated (bipartition encoding, node ages, root
    distances, depths) and whose structure / lengths were edited afterwards WITHOUT any update call.  Returns
    (Built re-projected from the current raw pointers, name of the edit, root distances seen before the edit).
    The choice of the edit is an input, seeded by the case."""
    rng = random.Random(case["seed"] * 31 + 5)
    b = Built(dendropy, nested, nl, sc)
    t = b.tree
    call(lambda: t.encode_bipartitions())
    call(lambda: t.calc_node_ages(ultrametricity_precision=False))
    before, _ = call(lambda: t.calc_node_root_distances(return_leaf_distances_only=False))
    call(lambda: t.resolve_node_depths())
    b.reproject()                                  # encode_bipartitions() suppresses single-child nodes
    order = b.order
    seed = t.seed_node
    leaves = [nd for nd in order if not nd._child_nodes]
    inner = [nd for nd in order if nd._child_nodes]
    unit = sc.real(1)

    def below(x, q):                               # is q inside the subtree of x
        while q is not None:
            if q is x:
                return True
            q = q._parent_node
        return False
    kinds = list(EDITS)
    rng.shuffle(kinds)
    done = ""
    for kind in kinds:
        if kind == "prune" and len(leaves) >= 3:
            lf = rng.choice(leaves)
            _, r = call(lambda: t.prune_taxa([lf.taxon]))
        elif kind == "move":
            cand = [(x, q) for x in order if x._parent_node is not None and len(x._parent_node._child_nodes) >= 2
                    for q in inner if q is not x._parent_node and not below(x, q)]
            if not cand:
                continue
            x, q = rng.choice(cand)
            _, r = call(lambda: (x._parent_node.remove_child(x), q.add_child(x)))
        elif kind == "reroot":
            cand = [x for x in order if x._parent_node is not None and x._child_nodes and x._edge.length is not None]
            if not cand or len(leaves) < 3:
                continue
            x = rng.choice(cand)
            el = x._edge.length
            l1 = unit if el >= 2 * unit else 0.0
            _, r = call(lambda: t.reroot_at_edge(x._edge, length1=l1, length2=el - l1, update_bipartitions=False))
        elif kind == "strip":
            # an internal node loses all its children and becomes a tip (half of the time its edge is lengthened by the
            # length of the path to its former first tip, so that an ultrametric tree stays ultrametric)
            cand = [x for x in inner if x._parent_node is not None]
            if not cand:
                continue
            x = rng.choice(cand)
            ext, y = 0.0, x
            while y._child_nodes:
                y = y._child_nodes[0]
                ext += y._edge.length
            keep = rng.random() < 0.5

            def strip():
                for ch in list(x._child_nodes):
                    x.remove_child(ch)
                if keep:
                    x._edge.length = x._edge.length + ext
            _, r = call(strip)
        elif kind == "grow" and len(order) > 1:
            # a tip gains two children and becomes internal (its own edge shortened by the same amount when possible)
            x = rng.choice([lf for lf in leaves if lf._parent_node is not None])
            a = unit * rng.choice([1, 2, 4])

            def grow():
                x.new_child(edge_length=a)
                x.new_child(edge_length=a)
                if x._edge.length >= a:
                    x._edge.length = x._edge.length - a
            _, r = call(grow)
        elif kind == "tips" and len(order) > 1:
            for lf in leaves:
                lf._edge.length = lf._edge.length + 2 * unit
            r = ""
        elif kind == "scale" and len(order) > 1:
            _, r = call(lambda: t.scale_edges(2))
        elif kind == "edge" and len(order) > 1:
            x = rng.choice([nd for nd in order if nd._parent_node is not None])
            x._edge.length = x._edge.length + unit
            r = ""
        else:
            continue
        done = kind + ((":" + r) if r else "")
        break
    b.reproject()
    return b, "populated+" + (done or "none"), [v for v in (before or []) if isinstance(v, (int, float))]


# ------------------------------------------------------------------ the events
def ev_ages(dendropy, case, nested, nl, sc, stale=None):
    from dendropy.utility import constants
    if stale is None:
        b, hist = Built(dendropy, nested, nl, sc), ""
    else:
        b, hist = stale[0], stale[1]
    t = b.tree
    runs = []
    precs = [("num", p) for p in case["precs"]] + [("false", None), ("neg", None), ("default", None), ("num", [0, 1])]

    def one(api, pk, force, intonly, fn_kwargs):
        kind, p = pk
        kw = dict(fn_kwargs)
        dis = False
        if kind == "num":
            kw["ultrametricity_precision"] = sc.real(p[0] * LS) / p[1]      # p is in projection units over LS
            prec = [p[0], p[1]]
        elif kind == "false":
            kw["ultrametricity_precision"] = False
            prec, dis = [0, 1], True
        elif kind == "neg":
            kw["ultrametricity_precision"] = -1
            prec, dis = [0, 1], True
        else:
            prec = sc.prec_units(constants.DEFAULT_ULTRAMETRICITY_PRECISION)
        if force == 1:
            kw["is_force_max_age"] = True
        elif force == 2:
            kw["is_force_min_age"] = True
        if not hist:
            b.reset_ages()                 # (a history keeps whatever stale ages the nodes carry)
        ret, raised = call(lambda: getattr(t, api)(**kw))
        runs.append({"api": api, "prec": prec, "dis": dis, "fmax": force == 1, "fmin": force == 2,
                     "intonly": intonly, "raised": raised,
                     "ages": b.per_node(lambda nd: sc.age(nd.age)),
                     "ret": [sc.age(v) for v in (ret or [])]})

    p0 = precs[0]
    if hist:
        for pk in (p0, ("false", None), ("neg", None), ("default", None), ("num", [0, 1])):
            one("calc_node_ages", pk, 0, False, {})
        one("calc_node_ages", p0, 1, False, {})
        one("calc_node_ages", p0, 2, False, {})
        one("calc_node_ages", p0, 0, True, {"is_return_internal_node_ages_only": True})
        one("node_ages", p0, 0, False, {})
        one("node_ages", ("false", None), 1, False, {})
        one("internal_node_ages", p0, 0, True, {})
        one("internal_node_ages", ("false", None), 2, True, {})
        return {"action": "Ages", "g": b.g, "runs": runs, "hist": hist}
    for pk in precs:
        for force in (0, 1, 2):
            one("calc_node_ages", pk, force, False, {})
    one("calc_node_ages", p0, 0, True, {"is_return_internal_node_ages_only": True})
    one("node_ages", p0, 0, False, {})
    one("node_ages", p0, 0, True, {"internal_only": True})
    one("internal_node_ages", p0, 0, True, {})
    one("node_ages", ("default", None), 0, False, {})
    one("internal_node_ages", ("default", None), 0, True, {})
    one("node_ages", ("false", None), 0, False, {})
    one("internal_node_ages", ("neg", None), 0, True, {})
    one("node_ages", p0, 1, False, {})
    one("internal_node_ages", p0, 2, True, {})
    return {"action": "Ages", "g": b.g, "runs": runs, "hist": ""}


def lineage_queries(t, sc, points):
    """[[distance in half units, observed count], ...] at every point, midway between consecutive ones, 0, beyond"""
    pts = sorted(set(points))
    qs = set([0.0])
    for i, v in enumerate(pts):
        qs.add(float(v))
        if i + 1 < len(pts):
            qs.add((v + pts[i + 1]) / 2.0)
    if pts:
        qs.add(pts[-1] + sc.real(1) / 2.0)
    q, r2 = [], []
    for d in sorted(qs):
        d2 = Fraction(d) * 2 * sc.S
        if d2.denominator != 1 or d2 > 10 ** 8:
            continue
        v, r = call(lambda: t.num_lineages_at(d))
        if r:
            r2.append(r)
            v = -1
        q.append([int(d2), int(v)])
    return q, ";".join(sorted(set(r2))), qs


def ev_depths_lineages(dendropy, nested, nl, sc, lineages, stale=None):
    if stale is None:
        b, hist, before = Built(dendropy, nested, nl, sc), "", []
    else:
        b, hist, before = stale
    t = b.tree
    raised = []
    out = []

    def c(name, fn):
        v, r = call(fn)
        if r:
            raised.append(name + ":" + r)
        return v
    if hist:
        # consumers of cached root distances first: nothing between the edit and these queries
        q, r, _ = lineage_queries(t, sc, before + [2 * v for v in before] + [v + sc.real(1) for v in before])
        out.append({"action": "Lineages", "g": b.g, "q": q, "raised": r, "hist": hist})
    e = {"action": "Depths", "g": b.g, "hist": hist}
    e["maxd"] = sc.age(c("max_distance_from_root", lambda: t.max_distance_from_root()))
    mm = c("minmax_leaf_distance_from_root", lambda: t.minmax_leaf_distance_from_root()) or (None, None)
    e["minmax"] = [sc.age(mm[0]), sc.age(mm[1])]
    if not hist:
        b.reset_ages()
    rna = c("resolve_node_ages", lambda: t.resolve_node_ages()) or {}
    e["rna"] = b.per_node(lambda nd: sc.age(rna.get(nd)))
    e["rna_attr"] = b.per_node(lambda nd: sc.age(nd.age))
    rnd = c("resolve_node_depths", lambda: t.resolve_node_depths()) or {}
    e["rnd"] = b.per_node(lambda nd: sc.age(rnd.get(nd)))
    e["rnd_attr"] = b.per_node(lambda nd: sc.age(getattr(nd, "depth", None)))
    leafd = c("calc_node_root_distances", lambda: t.calc_node_root_distances()) or []
    e["crd_leaf"] = [sc.age(v) for v in leafd]
    alld = c("calc_node_root_distances", lambda: t.calc_node_root_distances(return_leaf_distances_only=False)) or []
    e["crd_all"] = [sc.age(v) for v in alld]
    e["crd_attr"] = b.per_node(lambda nd: sc.age(getattr(nd, "root_distance", None)))
    e["raised"] = ";".join(raised)
    out.append(e)
    if lineages and not hist:
        q, r, qs = lineage_queries(t, sc, [v for v in alld if isinstance(v, (int, float))])
        out.append({"action": "Lineages", "g": b.g, "q": q, "raised": r, "hist": ""})
        # history: the same Tree object after its edge lengths changed (scale_edges(2), exact in floating point);
        # no other call in between, so a stale root-distance cache would show.  The tree is projected again.
        _, rs = call(lambda: t.scale_edges(2))
        b.reproject()
        q, r, _ = lineage_queries(t, sc, list(qs) + [2 * x for x in qs])
        out.append({"action": "Lineages", "g": b.g, "q": q, "raised": ";".join(x for x in (rs, r) if x), "hist": "queried+scale_edges"})
    return out


def len_opts(sc, full):
    opts = [("dflt", {}), ("none", {"minimum_edge_length": None}),
            ("none_err", {"minimum_edge_length": None, "error_on_negative_edge_lengths": True}),
            ("zero_err", {"minimum_edge_length": 0.0, "error_on_negative_edge_lengths": True}),
            ("two_units", {"minimum_edge_length": sc.real(2)})]
    return opts if full else [opts[0], opts[2]]


def ev_edge_lens(dendropy, case, nested, nl, sc, full):
    p = case["precs"][0]
    modes = [("checked", {"ultrametricity_precision": sc.real(p[0] * LS) / p[1]}),
             ("disabled", {"ultrametricity_precision": False}),
             ("max", {"is_force_max_age": True}), ("min", {"is_force_min_age": True})]
    runs, g0 = [], None
    for mode, akw in modes:
        for oname, okw in len_opts(sc, full):
            b = Built(dendropy, nested, nl, sc)
            g0 = g0 or b.g
            _, r = call(lambda: b.tree.calc_node_ages(**akw))
            if r:
                continue           # rejected: judged in the Ages event; there are no ages to set lengths from
            ages = b.per_node(lambda nd: sc.age(nd.age))
            _, raised = call(lambda: b.tree.set_edge_lengths_from_node_ages(**okw))
            newlen = [sc.age(nd._edge.length) if nd._parent_node is None else sc.sint(nd._edge.length)
                      for nd in b.order]
            mn = okw.get("minimum_edge_length", 0.0)
            runs.append({"mode": mode, "opts": oname, "ages": ages, "hasmin": mn is not None,
                         "min": 0 if mn is None else sc.sint(mn), "err": bool(okw.get("error_on_negative_edge_lengths", False)),
                         "raised": raised, "newlen": newlen})
    return {"action": "EdgeLens", "g": g0, "runs": runs}


SACKIN = [("sackin_default", None), ("sackin_true", (True,)), ("sackin_none", (None,)), ("sackin_false", (False,)),
          ("sackin_yule", ("yule",)), ("sackin_pda", ("pda",))]
COLLESS = [("colless_default", None), ("colless_max", ("max",)), ("colless_true", (True,)), ("colless_none", (None,)),
           ("colless_false", (False,)), ("colless_yule", ("yule",)), ("colless_pda", ("pda",))]


def ev_stats(dendropy, nested, nl, sc, api, stale=None):
    """all statistics through treemeasure.* (api = 'treemeasure') or the Tree methods (api = 'Tree')"""
    from dendropy.calculate import treemeasure
    if stale is None:
        b, hist = Built(dendropy, nested, nl, sc), ""
    else:
        b, hist = stale[0], stale[1]
    t = b.tree
    n = b.nleaves()
    fn = (lambda name: (lambda *a: getattr(treemeasure, name)(t, *a))) if api == "treemeasure" else \
         (lambda name: (lambda *a: getattr(t, name)(*a)))
    stats = []

    def add(name, thunk, undo=None, scale=1):
        v, raised = call(thunk)
        shown = repr(v)
        if not raised and undo is not None:
            v, r2 = call(lambda: undo(v, n))
            raised = raised or (("harness:" + r2) if r2 else "")
        stats.append({"name": name, "v": rat(v * scale) if not raised else [0, 0, False], "raised": raised, "obs": shown})

    add("length", lambda: t.length(), scale=float(sc.S))
    add("nbar", lambda: fn("N_bar")())
    for name, a in SACKIN:
        undo = undo_sackin_yule if name.endswith("yule") else undo_pda if name.endswith("pda") else None
        add(name, (lambda a=a: fn("sackin_index")(*(a or ()))), undo)
    for name, a in COLLESS:
        undo = undo_colless_yule if name.endswith("yule") else undo_pda if name.endswith("pda") else None
        add(name, (lambda a=a: fn("colless_tree_imbalance")(*(a or ()))), undo)
    add("b1", lambda: fn("B1")())
    add("treeness", lambda: fn("treeness")())
    if not hist:
        b.reset_ages()
    add("gamma", lambda: fn("pybus_harvey_gamma")(), undo_gamma_sqrt)
    return {"action": "Stats", "g": b.g, "nl": n, "api": api, "stats": stats, "hist": hist}


def ev_gamma_prec(dendropy, case, nested, nl, sc):
    """pybus_harvey_gamma with an explicit absolute precision: accept / reject on both sides of it, at the case's scale"""
    from dendropy.calculate import treemeasure
    b = Built(dendropy, nested, nl, sc)
    n = b.nleaves()
    p = case["precs"][0]
    v, raised = call(lambda: treemeasure.pybus_harvey_gamma(b.tree, prec=sc.real(p[0] * LS) / p[1]))
    shown = repr(v)
    if not raised:
        v, r2 = call(lambda: undo_gamma_sqrt(v, n))
        raised = ("harness:" + r2) if r2 and n >= 3 else ""
        if r2:
            v = None
    return {"action": "GammaPrec", "g": b.g, "nl": n, "prec": [p[0], p[1]], "raised": raised,
            "v": rat(v) if v is not None else [0, 0, False], "obs": shown}


def run_case(case):
    import dendropy
    from dendropy.utility import deprecate
    warnings.simplefilter("ignore")
    deprecate.configure_deprecation_warning_behavior("ignore")     # Tree.B1() etc. are deprecated wrappers (still public)
    sc = Scale(case.get("k", 0))
    nested, nl = nested_of_case(case, sc)
    full = bool(case.get("full", True))
    evs = [ev_ages(dendropy, case, nested, nl, sc)]
    evs.extend(ev_depths_lineages(dendropy, nested, nl, sc, lineages=full))
    evs.append(ev_edge_lens(dendropy, case, nested, nl, sc, full))
    evs.append(ev_gamma_prec(dendropy, case, nested, nl, sc))
    if full:
        s1 = ev_stats(dendropy, nested, nl, sc, "treemeasure")
        nested2 = permuted(nested, random.Random(case["seed"]))
        s2 = ev_stats(dendropy, nested2, nl, sc, "Tree")
        evs.append(s1)
        evs.append(s2)
        strip = lambda st: [{"name": x["name"], "v": x["v"], "raised": x["raised"]} for x in st]
        evs.append({"action": "StatsPerm", "g": s1["g"], "g2": s2["g"], "a": strip(s1["stats"]), "b": strip(s2["stats"])})
        # the same queries on trees whose caches are all populated and stale (three instances of the same history,
        # so that no query of one group refreshes a cache another group might consume)
        evs.append(ev_stats(dendropy, nested, nl, sc, "treemeasure", stale=stale_instance(dendropy, case, nested, nl, sc)))
        evs.extend(ev_depths_lineages(dendropy, nested, nl, sc, True, stale=stale_instance(dendropy, case, nested, nl, sc)))
        evs.append(ev_ages(dendropy, case, nested, nl, sc, stale=stale_instance(dendropy, case, nested, nl, sc)))
    return evs


# ------------------------------------------------------------------ random cases (inputs only)
def flatten_nested(nested):
    """nested shape -> 1-based preorder parent array"""
    par = []

    def rec(nd, p):
        par.append(p)
        me = len(par)
        for k in nd[3]:
            rec(k, me)
    rec(nested, 0)
    return par


def shape_height(par):
    d = [0] * (len(par) + 1)
    for i, p in enumerate(par):
        d[i + 1] = 0 if p == 0 else d[p] + 1
    return max(d)


def random_case(rng, k, seed):
    while True:
        nl = rng.randint(6, 12)
        binary = rng.random() < 0.45
        shape = build.random_parents(rng, nl, p_poly=0.0 if binary else 0.3, p_unif=0.0 if binary else 0.08)
        par = flatten_nested(shape)
        if shape_height(par) <= 11:
            break
    n = len(par)
    kids = [[] for _ in range(n + 1)]
    for i, p in enumerate(par):
        if p:
            kids[p].append(i + 1)
    ht = [0] * (n + 1)
    for x in range(n, 0, -1):            # children have larger preorder numbers
        if kids[x]:
            ht[x] = max(ht[c] for c in kids[x]) + rng.choice([0, 1, 1, 2, 3, 4, 5, 8])
    if ht[1] == 0:
        ht[1] = 4
    lens = [(-1 if rng.random() < 0.5 else rng.choice([0, 2, 4])) if p == 0 else ht[p] - ht[i + 1] for i, p in enumerate(par)]
    # precision: a power of two (real units), perturb 0-3 tips by about that much
    pw = rng.choice([-3, -2, -2, -1, -1, 0, 0, 1, 2])
    prec = [2 ** pw, 1] if pw >= 0 else [1, 2 ** (-pw)]
    pu = max(1, (LS * prec[0]) // prec[1])            # precision in length units (at least one unit)
    npert = rng.choice([0, 0, 1, 1, 2, 3]) if not (binary and rng.random() < 0.6) else 0
    tips = [x for x in range(2, n + 1) if not kids[x]]
    for x in rng.sample(tips, min(npert, len(tips))):
        d = rng.choice([-1, 1]) * rng.choice([max(1, pu - 1), pu, pu + 1, max(1, pu // 2)])
        if lens[x - 1] + d >= 0:
            lens[x - 1] += d
    # half of the random trees live at another length scale (2**-7 .. 2**6); the precision stays an absolute number:
    # `prec` is given in projection units, i.e. the real precision is prec * 2**k - still a power of two
    kexp = rng.choice(SCALES) if rng.random() < 0.5 else 0
    return {"kind": "random", "seed": seed, "par": par, "len": lens, "precs": [prec], "full": True, "np": npert, "k": kexp}


def model_cases(ctx, states, precs):
    cases = []
    for k, st in enumerate(states):
        s = st["s"]
        base = s["np"] == 0
        cases.append({"kind": "model", "seed": ctx.seed * 7919 + k, "par": list(s["par"]), "len": list(s["len"]),
                      "precs": [[p, LS] for p in precs] if base else [[s["prec"], LS]],
                      "full": base, "np": s["np"], "delta": s["delta"],
                      # perturbed trees are replayed at every length scale in turn (tree depth from 1/128 to 128)
                      "k": 0 if base else SCALES[k % len(SCALES)]})
    return cases


def note_nontrivial(ctx, driven):
    for case, evs in driven:
        shape = [case["par"], case["len"]]
        for e in evs:
            if e["action"] == "Ages":
                for r in e["runs"]:
                    if len(case["par"]) > 1:
                        ctx.add_nontrivial(["Ages", shape, r["api"], r["prec"], r["dis"], r["fmax"], r["fmin"], r["intonly"]])
            elif e["action"] == "Stats":
                for st in e["stats"]:
                    if not st["raised"] and len(case["par"]) > 2:
                        ctx.add_nontrivial(["Stats", e["g"]["kids"], e["g"]["len"], e["api"], st["name"]])
            elif e["action"] == "Lineages":
                for q in e["q"]:
                    if q[1] > 0:
                        ctx.add_nontrivial(["Lineages", shape, q[0]])
            elif e["action"] == "EdgeLens":
                for r in e["runs"]:
                    if len(case["par"]) > 1:
                        ctx.add_nontrivial(["EdgeLens", shape, r["mode"], r["opts"]])


def run(ctx):
    tier = QUICK if ctx.quick else THOROUGH
    states, seen = [], set()
    for cfg in tier["cfgs"]:
        dump = os.path.join(ctx.work, "nodeages.dump")
        ctx.model("MC_NodeAges", cfg, extra=("-dump", dump), heap="3g")
        for st in tlaval.read_dump(dump):
            key = core.dumps([st["s"]["par"], st["s"]["len"], st["s"]["np"], st["s"]["prec"]])
            if key not in seen:              # the two thorough domains overlap
                seen.add(key)
                states.append(st)
        os.remove(dump)
    # the shipped first-child comparison lets deviations accumulate: with two perturbed tips TLC must find a tree
    # that the rule accepts although its paths differ by more than the precision (invariant not vacuous)
    ctx.model("MC_NodeAges", "AsShipped_NodeAges.cfg", expect_violation="ShippedSound", count=False, heap="1g", workers=4)
    cases = model_cases(ctx, states, tier["precs"])
    nmodel = len(cases)
    nbase = sum(1 for c in cases if c["np"] == 0)
    rng = random.Random(ctx.seed * 1000003 + 17)
    rand = [random_case(rng, k, ctx.seed * 7919 + 1000000 + k) for k in range(tier["nrand"])]
    # spread the (larger) random trees evenly over the judge batches
    step = max(1, len(cases) // max(1, len(rand)))
    mixed = []
    for i, c in enumerate(cases):
        mixed.append(c)
        if i % step == step - 1 and rand:
            mixed.append(rand.pop())
    cases = mixed + rand
    driven = ctx.drive(cases, run_case)
    nev = sum(len(evs) for _, evs in driven)
    ctx.judge("Trace_NodeAges", driven, batch=max(1500, min(8000, nev // 8 + 1)), heap="2g")
    note_nontrivial(ctx, driven)
    nl = 5 if ctx.quick else 6
    ctx.rule = ("every state of TLC's dump(s) of MC_NodeAges/%s (%d trees: all %d ordered trees with <= %d tips, integer node heights, "
                "<= 1 single-child node; each one without single-child nodes additionally with one tip perturbed by prec-1, prec, "
                "prec+1 units either way for prec in %s quarter units) x every API of the property x every option combination, "
                "+ %d seeded random trees with 6-12 tips (quarter-unit lengths, 0-3 perturbed tips, power-of-two precisions); "
                "perturbed trees and half of the random ones are built at length scale 2^k, k in -7..6, with the precision kept an "
                "absolute number (ages, gamma(prec)); every unperturbed and random tree is also queried (all statistics, depths, "
                "lineages, ages) after the history 'encode_bipartitions + calc_node_ages + calc_node_root_distances + "
                "resolve_node_depths, then prune / move a subtree / reroot_at_edge / lengthen tips / scale_edges / change one edge / "
                "strip an internal node of its children (it becomes a tip) / give a tip two children (it becomes internal) "
                "without any update' and judged on the tree projected after the edit; "
                "distinct_nontrivial = distinct (API, options, tree with lengths) on trees with more than one node / "
                "distinct (statistic, normalisation, tree) that returned a value / distinct (tree, distance) with a positive lineage count"
                % ("+".join(tier["cfgs"]), nmodel, nbase, nl, tier["precs"], tier["nrand"]))
    ctx.exhaustive = True
    ctx.extra["exhaustive_domain"] = ("ordered rooted trees with <= %d tips (polytomies, zero-length edges and equal node heights included), "
                                      "node heights in 1..2 height units of 4 quarter units with <= 1 single-child node%s; every tree without "
                                      "single-child nodes and heights <= 2 also with one tip perturbed by prec-1, prec, prec+1 quarter units "
                                      "either way: all %d states of the TLC dump(s)"
                                      % (nl, "" if ctx.quick else ", and heights in 1..3 without single-child nodes", nmodel))
    ctx.assumptions.append("Colless/Sackin 'yule' and 'pda' normalisations and the square root of the Pybus-Harvey gamma are removed by the "
                           "harness with the closed-form factor (a function of the tip count only); TLC judges the remaining rational "
                           "against the exact raw statistic / numerator/T (DESIGN 5)")
    ctx.assumptions.append("lengths are multiples of 1/4 and precisions powers of two, so the library's floating-point sums and threshold "
                           "comparisons are exact; behaviour on arbitrary floats near the precision is not decided")
    ctx.assumptions.append("statistics are judged only inside their documented preconditions (Colless: strictly bifurcating, >= 3 tips for "
                           "the 'max' normalisation; gamma: bifurcating, exactly ultrametric, >= 3 tips, positive height; treeness: positive "
                           "total length); outcomes outside them are logged and ignored")
    for i in (min(len(driven) - 1, 40), len(driven) - 1):
        ctx.add_sample({"case": driven[i][0], "event": driven[i][1][0]["runs"][0]})


def replay(ctx, rec):
    driven = ctx.drive([rec["case"]], run_case, parallel=False)
    ctx.judge("Trace_NodeAges", driven)
    ctx.rule = "replay of one recorded case"
    ctx.add_sample({"case": rec["case"]})
