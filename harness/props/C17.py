"""C17 - node ages, the ultrametricity check and tree statistics match their definitions.

spec/NodeAges.tla defines depth, tip-distance sets, Ultrametric(t, prec), ages (plain / forced max /
forced min / resolved), EdgeLengthsFromAges, Lineages(t, d) and the statistics (length, N-bar, Sackin,
Colless, B1, treeness as exact rationals; the Pybus-Harvey numerator / T) independently of how the
library computes them.  MC_NodeAges (TLC) checks those definitions on every ordered tree with integer
node heights up to a leaf bound (ultrametric by construction; one tip perturbed by prec-1, prec,
prec+1 units on either side) and dumps that domain.  Every dumped tree is built as a real Tree and
every API named by the property is called with every option combination; Trace_NodeAges (TLC) judges
each observed value against the definition on the projected raw pointers.  Seeded random trees
(6-12 leaves, quarter-unit lengths, several perturbed tips, power-of-two precisions) go the same way.

The Python side contains no oracle.  For the transcendental normalisations (Colless / Sackin "yule"
and "pda", the square root in gamma) the harness only removes the closed-form factor, which depends
on the number of tips alone (DESIGN 5); TLC judges the remaining rational against the exact raw
statistic / the exact gamma numerator / T.
"""
import math
import os
import random
import warnings

from vlib import core, tlaval, proj, build

ID = "C17"
LS = proj.LSCALE
EULER_GAMMA = 0.5772156649015329
NOLEN = -999999      # sentinel inside `newlen` (None), NOLEN + 1 = not a multiple of 1/LS

QUICK = {"cfgs": ["MC_NodeAges_quick.cfg"], "precs": [1, 2], "nrand": 700}
THOROUGH = {"cfgs": ["MC_NodeAges_thorough.cfg", "MC_NodeAges_thorough_h3.cfg"], "precs": [1, 2, 4], "nrand": 6000}


# ------------------------------------------------------------------ projections (syntactic only)
def sint(v):
    """value -> exact integer number of 1/LS units (may be negative); None -> NOLEN; otherwise NOLEN + 1"""
    if v is None:
        return NOLEN
    try:
        f = v * LS
        if f != int(f) or abs(f) > 10 ** 8:
            return NOLEN + 1
        return int(f)
    except Exception:
        return NOLEN + 1


def age_int(v):
    """ages / depths: scaled integer, -1 for None, -2 when not exactly representable"""
    return proj.scaled_len(v, LS)


def rat(x):
    try:
        return proj.rat(float(x))
    except Exception:
        return [0, 0, False]


# ------------------------------------------------------------------ closed-form factors (functions of the tip count only)
def undo_colless_yule(y, n):
    return y * n + n * math.log(n) + n * (EULER_GAMMA - 1.0 - math.log(2))


def undo_sackin_yule(y, n):
    return y * n + 2.0 * n * sum(1.0 / j for j in range(2, n + 1))


def undo_pda(y, n):
    return y * pow(n, 1.5)


def undo_gamma_sqrt(y, n):
    return y * math.sqrt(1.0 / (12.0 * (n - 2)))


# ------------------------------------------------------------------ building
def permuted(nested, rng):
    lab, tx, ln, kids = nested
    ks = [permuted(k, rng) for k in kids]
    if len(ks) > 1:
        first = ks[0]
        for _ in range(5):
            rng.shuffle(ks)
            if ks[0] is not first:
                break
    return [lab, tx, ln, ks]


def nested_of_case(case):
    par = case["par"]
    nl = build.num_leaves([p - 1 for p in par])
    lens = [None if v < 0 else v / float(LS) for v in case["len"]]
    return build.nested_from_parents(par, list(range(nl)), lens=lens), nl


class Built(object):
    def __init__(self, dendropy, nested, nl):
        self.ns, self.taxa = build.make_namespace(dendropy, max(1, nl))
        self.tree = build.build_tree(dendropy, nested, self.ns, self.taxa, rooted=True)
        ids = {}
        self.g = proj.tree_graph(self.tree, node_ids=ids, labels=False)
        self.order = ids.pop("__order__")
        self.ids = ids

    def per_node(self, fn):
        return [fn(nd) for nd in self.order]

    def reset_ages(self):
        for nd in self.order:
            nd.age = None


def call(fn):
    try:
        return fn(), ""
    except Exception as ex:
        return None, type(ex).__name__


# ------------------------------------------------------------------ the events
def ev_ages(dendropy, case, nested, nl):
    from dendropy.utility import constants
    b = Built(dendropy, nested, nl)
    t = b.tree
    runs = []
    precs = [("num", p) for p in case["precs"]] + [("false", None), ("neg", None), ("default", None), ("num", [0, 1])]

    def one(api, pk, force, intonly, fn_kwargs):
        kind, p = pk
        kw = dict(fn_kwargs)
        dis = False
        if kind == "num":
            kw["ultrametricity_precision"] = p[0] / float(p[1])
            prec = [p[0], p[1]]
        elif kind == "false":
            kw["ultrametricity_precision"] = False
            prec, dis = [0, 1], True
        elif kind == "neg":
            kw["ultrametricity_precision"] = -1
            prec, dis = [0, 1], True
        else:
            prec = rat(constants.DEFAULT_ULTRAMETRICITY_PRECISION)[:2]
        if force == 1:
            kw["is_force_max_age"] = True
        elif force == 2:
            kw["is_force_min_age"] = True
        b.reset_ages()
        ret, raised = call(lambda: getattr(t, api)(**kw))
        runs.append({"api": api, "prec": prec, "dis": dis, "fmax": force == 1, "fmin": force == 2,
                     "intonly": intonly, "raised": raised,
                     "ages": b.per_node(lambda nd: age_int(nd.age)),
                     "ret": [age_int(v) for v in (ret or [])]})

    for pk in precs:
        for force in (0, 1, 2):
            one("calc_node_ages", pk, force, False, {})
    p0 = precs[0]
    one("calc_node_ages", p0, 0, True, {"is_return_internal_node_ages_only": True})
    one("node_ages", p0, 0, False, {})
    one("node_ages", p0, 0, True, {"internal_only": True})
    one("internal_node_ages", p0, 0, True, {})
    one("node_ages", ("default", None), 0, False, {})
    one("internal_node_ages", ("default", None), 0, True, {})
    one("node_ages", ("false", None), 0, False, {})
    one("internal_node_ages", ("neg", None), 0, True, {})
    one("node_ages", p0, 1, False, {})
    one("internal_node_ages", p0, 2, True, {})
    return {"action": "Ages", "g": b.g, "runs": runs}


def ev_depths_lineages(dendropy, nested, nl, lineages):
    b = Built(dendropy, nested, nl)
    t = b.tree
    raised = []

    def c(name, fn):
        v, r = call(fn)
        if r:
            raised.append(name + ":" + r)
        return v
    rnd = c("resolve_node_depths", lambda: t.resolve_node_depths()) or {}
    e = {"action": "Depths", "g": b.g}
    e["rnd"] = b.per_node(lambda nd: age_int(rnd.get(nd)))
    e["rnd_attr"] = b.per_node(lambda nd: age_int(getattr(nd, "depth", None)))
    leafd = c("calc_node_root_distances", lambda: t.calc_node_root_distances()) or []
    e["crd_leaf"] = [age_int(v) for v in leafd]
    alld = c("calc_node_root_distances", lambda: t.calc_node_root_distances(return_leaf_distances_only=False)) or []
    e["crd_all"] = [age_int(v) for v in alld]
    e["crd_attr"] = b.per_node(lambda nd: age_int(getattr(nd, "root_distance", None)))
    b.reset_ages()
    rna = c("resolve_node_ages", lambda: t.resolve_node_ages()) or {}
    e["rna"] = b.per_node(lambda nd: age_int(rna.get(nd)))
    e["rna_attr"] = b.per_node(lambda nd: age_int(nd.age))
    e["maxd"] = age_int(c("max_distance_from_root", lambda: t.max_distance_from_root()))
    mm = c("minmax_leaf_distance_from_root", lambda: t.minmax_leaf_distance_from_root()) or (None, None)
    e["minmax"] = [age_int(mm[0]), age_int(mm[1])]
    e["raised"] = ";".join(raised)
    out = [e]
    if lineages:
        # query points: every observed node distance, midway between consecutive ones, 0, beyond the last one
        pts = sorted(set(v for v in alld if isinstance(v, (int, float))))
        qs = set([0.0])
        for i, v in enumerate(pts):
            qs.add(float(v))
            if i + 1 < len(pts):
                qs.add((v + pts[i + 1]) / 2.0)
        if pts:
            qs.add(pts[-1] + 1.0 / (2 * LS))
        q, r2 = [], []
        for d in sorted(qs):
            d2 = d * 2 * LS
            if d2 != int(d2):
                continue
            v, r = call(lambda: t.num_lineages_at(d))
            if r:
                r2.append(r)
                v = -1
            q.append([int(d2), int(v)])
        out.append({"action": "Lineages", "g": b.g, "q": q, "raised": ";".join(sorted(set(r2)))})
        # history: the same Tree object after its edge lengths changed (scale_edges(2), exact in floating point);
        # no other call in between, so a stale root-distance cache would show.  The tree is projected again.
        _, rs = call(lambda: t.scale_edges(2))
        g2 = proj.tree_graph(t, labels=False)
        q, r2 = [], ([rs] if rs else [])
        for d in sorted(qs | set(2 * x for x in qs)):
            d2 = d * 2 * LS
            if d2 != int(d2):
                continue
            v, r = call(lambda: t.num_lineages_at(d))
            if r:
                r2.append(r)
                v = -1
            q.append([int(d2), int(v)])
        out.append({"action": "Lineages", "g": g2, "q": q, "raised": ";".join(sorted(set(r2))), "hist": "after_scale_edges"})
    return out


LEN_OPTS_FULL = [("dflt", {}), ("none", {"minimum_edge_length": None}),
                 ("none_err", {"minimum_edge_length": None, "error_on_negative_edge_lengths": True}),
                 ("zero_err", {"minimum_edge_length": 0.0, "error_on_negative_edge_lengths": True}),
                 ("half", {"minimum_edge_length": 0.5})]
LEN_OPTS_SMALL = [LEN_OPTS_FULL[0], LEN_OPTS_FULL[2]]


def ev_edge_lens(dendropy, case, nested, nl, full):
    p = case["precs"][0]
    modes = [("checked", {"ultrametricity_precision": p[0] / float(p[1])}),
             ("disabled", {"ultrametricity_precision": False}),
             ("max", {"is_force_max_age": True}), ("min", {"is_force_min_age": True})]
    runs, g0 = [], None
    for mode, akw in modes:
        for oname, okw in (LEN_OPTS_FULL if full else LEN_OPTS_SMALL):
            b = Built(dendropy, nested, nl)
            g0 = g0 or b.g
            _, r = call(lambda: b.tree.calc_node_ages(**akw))
            if r:
                continue           # rejected: judged in the Ages event; there are no ages to set lengths from
            ages = b.per_node(lambda nd: age_int(nd.age))
            _, raised = call(lambda: b.tree.set_edge_lengths_from_node_ages(**okw))
            newlen = [proj.scaled_len(nd._edge.length, LS) if nd._parent_node is None else sint(nd._edge.length)
                      for nd in b.order]
            mn = okw.get("minimum_edge_length", 0.0)
            runs.append({"mode": mode, "opts": oname, "ages": ages, "hasmin": mn is not None,
                         "min": 0 if mn is None else sint(mn), "err": bool(okw.get("error_on_negative_edge_lengths", False)),
                         "raised": raised, "newlen": newlen})
    return {"action": "EdgeLens", "g": g0, "runs": runs}


SACKIN = [("sackin_default", None), ("sackin_true", (True,)), ("sackin_none", (None,)), ("sackin_false", (False,)),
          ("sackin_yule", ("yule",)), ("sackin_pda", ("pda",))]
COLLESS = [("colless_default", None), ("colless_max", ("max",)), ("colless_true", (True,)), ("colless_none", (None,)),
           ("colless_false", (False,)), ("colless_yule", ("yule",)), ("colless_pda", ("pda",))]


def ev_stats(dendropy, nested, nl, api):
    """all statistics through treemeasure.* (api = 'treemeasure') or the Tree methods (api = 'Tree')"""
    from dendropy.calculate import treemeasure
    b = Built(dendropy, nested, nl)
    t = b.tree
    n = sum(1 for k in b.g["kids"] if not k)
    fn = (lambda name: (lambda *a: getattr(treemeasure, name)(t, *a))) if api == "treemeasure" else \
         (lambda name: (lambda *a: getattr(t, name)(*a)))
    stats = []

    def add(name, thunk, undo=None, scale=1):
        v, raised = call(thunk)
        shown = repr(v)
        if not raised and undo is not None:
            v, r2 = call(lambda: undo(v, n))
            raised = raised or (("harness:" + r2) if r2 else "")
        stats.append({"name": name, "v": rat(v * scale) if not raised else [0, 0, False], "raised": raised, "obs": shown})

    add("length", lambda: t.length(), scale=LS)
    add("nbar", lambda: fn("N_bar")())
    for name, a in SACKIN:
        undo = undo_sackin_yule if name.endswith("yule") else undo_pda if name.endswith("pda") else None
        add(name, (lambda a=a: fn("sackin_index")(*(a or ()))), undo)
    for name, a in COLLESS:
        undo = undo_colless_yule if name.endswith("yule") else undo_pda if name.endswith("pda") else None
        add(name, (lambda a=a: fn("colless_tree_imbalance")(*(a or ()))), undo)
    add("b1", lambda: fn("B1")())
    add("treeness", lambda: fn("treeness")())
    b.reset_ages()
    add("gamma", lambda: fn("pybus_harvey_gamma")(), undo_gamma_sqrt)
    return {"action": "Stats", "g": b.g, "nl": n, "api": api, "stats": stats}


def run_case(case):
    import dendropy
    from dendropy.utility import deprecate
    warnings.simplefilter("ignore")
    deprecate.configure_deprecation_warning_behavior("ignore")     # Tree.B1() etc. are deprecated wrappers (still public)
    nested, nl = nested_of_case(case)
    full = bool(case.get("full", True))
    evs = [ev_ages(dendropy, case, nested, nl)]
    evs.extend(ev_depths_lineages(dendropy, nested, nl, lineages=full or case.get("lineages", False)))
    evs.append(ev_edge_lens(dendropy, case, nested, nl, full))
    if full:
        s1 = ev_stats(dendropy, nested, nl, "treemeasure")
        nested2 = permuted(nested, random.Random(case["seed"]))
        s2 = ev_stats(dendropy, nested2, nl, "Tree")
        evs.append(s1)
        evs.append(s2)
        strip = lambda st: [{"name": x["name"], "v": x["v"], "raised": x["raised"]} for x in st]
        evs.append({"action": "StatsPerm", "g": s1["g"], "g2": s2["g"], "a": strip(s1["stats"]), "b": strip(s2["stats"])})
    return evs


# ------------------------------------------------------------------ random cases (inputs only)
def flatten_nested(nested):
    """nested shape -> 1-based preorder parent array"""
    par = []

    def rec(nd, p):
        par.append(p)
        me = len(par)
        for k in nd[3]:
            rec(k, me)
    rec(nested, 0)
    return par


def shape_height(par):
    d = [0] * (len(par) + 1)
    for i, p in enumerate(par):
        d[i + 1] = 0 if p == 0 else d[p] + 1
    return max(d)


def random_case(rng, k, seed):
    while True:
        nl = rng.randint(6, 12)
        binary = rng.random() < 0.45
        shape = build.random_parents(rng, nl, p_poly=0.0 if binary else 0.3, p_unif=0.0 if binary else 0.08)
        par = flatten_nested(shape)
        if shape_height(par) <= 11:
            break
    n = len(par)
    kids = [[] for _ in range(n + 1)]
    for i, p in enumerate(par):
        if p:
            kids[p].append(i + 1)
    ht = [0] * (n + 1)
    for x in range(n, 0, -1):            # children have larger preorder numbers
        if kids[x]:
            ht[x] = max(ht[c] for c in kids[x]) + rng.choice([0, 1, 1, 2, 3, 4, 5, 8])
    if ht[1] == 0:
        ht[1] = 4
    lens = [(-1 if rng.random() < 0.5 else rng.choice([0, 2, 4])) if p == 0 else ht[p] - ht[i + 1] for i, p in enumerate(par)]
    # precision: a power of two (real units), perturb 0-3 tips by about that much
    pw = rng.choice([-3, -2, -2, -1, -1, 0, 0, 1, 2])
    prec = [2 ** pw, 1] if pw >= 0 else [1, 2 ** (-pw)]
    pu = max(1, (LS * prec[0]) // prec[1])            # precision in length units (at least one unit)
    npert = rng.choice([0, 0, 1, 1, 2, 3]) if not (binary and rng.random() < 0.6) else 0
    tips = [x for x in range(2, n + 1) if not kids[x]]
    for x in rng.sample(tips, min(npert, len(tips))):
        d = rng.choice([-1, 1]) * rng.choice([max(1, pu - 1), pu, pu + 1, max(1, pu // 2)])
        if lens[x - 1] + d >= 0:
            lens[x - 1] += d
    return {"kind": "random", "seed": seed, "par": par, "len": lens, "precs": [prec], "full": True, "np": npert}


def model_cases(ctx, states, precs):
    cases = []
    for k, st in enumerate(states):
        s = st["s"]
        base = s["np"] == 0
        cases.append({"kind": "model", "seed": ctx.seed * 7919 + k, "par": list(s["par"]), "len": list(s["len"]),
                      "precs": [[p, LS] for p in precs] if base else [[s["prec"], LS]],
                      "full": base, "np": s["np"], "delta": s["delta"]})
    return cases


def note_nontrivial(ctx, driven):
    for case, evs in driven:
        shape = [case["par"], case["len"]]
        for e in evs:
            if e["action"] == "Ages":
                for r in e["runs"]:
                    if len(case["par"]) > 1:
                        ctx.add_nontrivial(["Ages", shape, r["api"], r["prec"], r["dis"], r["fmax"], r["fmin"], r["intonly"]])
            elif e["action"] == "Stats":
                for st in e["stats"]:
                    if not st["raised"] and len(case["par"]) > 2:
                        ctx.add_nontrivial(["Stats", e["g"]["kids"], e["g"]["len"], e["api"], st["name"]])
            elif e["action"] == "Lineages":
                for q in e["q"]:
                    if q[1] > 0:
                        ctx.add_nontrivial(["Lineages", shape, q[0]])
            elif e["action"] == "EdgeLens":
                for r in e["runs"]:
                    if len(case["par"]) > 1:
                        ctx.add_nontrivial(["EdgeLens", shape, r["mode"], r["opts"]])


def run(ctx):
    tier = QUICK if ctx.quick else THOROUGH
    states, seen = [], set()
    for cfg in tier["cfgs"]:
        dump = os.path.join(ctx.work, "nodeages.dump")
        ctx.model("MC_NodeAges", cfg, extra=("-dump", dump), heap="3g")
        for st in tlaval.read_dump(dump):
            key = core.dumps([st["s"]["par"], st["s"]["len"], st["s"]["np"], st["s"]["prec"]])
            if key not in seen:              # the two thorough domains overlap
                seen.add(key)
                states.append(st)
        os.remove(dump)
    # the shipped first-child comparison lets deviations accumulate: with two perturbed tips TLC must find a tree
    # that the rule accepts although its paths differ by more than the precision (invariant not vacuous)
    ctx.model("MC_NodeAges", "AsShipped_NodeAges.cfg", expect_violation="ShippedSound", count=False, heap="1g", workers=4)
    cases = model_cases(ctx, states, tier["precs"])
    nmodel = len(cases)
    nbase = sum(1 for c in cases if c["np"] == 0)
    rng = random.Random(ctx.seed * 1000003 + 17)
    rand = [random_case(rng, k, ctx.seed * 7919 + 1000000 + k) for k in range(tier["nrand"])]
    # spread the (larger) random trees evenly over the judge batches
    step = max(1, len(cases) // max(1, len(rand)))
    mixed = []
    for i, c in enumerate(cases):
        mixed.append(c)
        if i % step == step - 1 and rand:
            mixed.append(rand.pop())
    cases = mixed + rand
    driven = ctx.drive(cases, run_case)
    nev = sum(len(evs) for _, evs in driven)
    ctx.judge("Trace_NodeAges", driven, batch=max(1500, min(8000, nev // 8 + 1)), heap="2g")
    note_nontrivial(ctx, driven)
    nl = 5 if ctx.quick else 6
    ctx.rule = ("every state of TLC's dump(s) of MC_NodeAges/%s (%d trees: all %d ordered trees with <= %d tips, integer node heights, "
                "<= 1 single-child node; each one without single-child nodes additionally with one tip perturbed by prec-1, prec, "
                "prec+1 units either way for prec in %s quarter units) x every API of the property x every option combination, "
                "+ %d seeded random trees with 6-12 tips (quarter-unit lengths, 0-3 perturbed tips, power-of-two precisions); "
                "distinct_nontrivial = distinct (API, options, tree with lengths) on trees with more than one node / "
                "distinct (statistic, normalisation, tree) that returned a value / distinct (tree, distance) with a positive lineage count"
                % ("+".join(tier["cfgs"]), nmodel, nbase, nl, tier["precs"], tier["nrand"]))
    ctx.exhaustive = True
    ctx.extra["exhaustive_domain"] = ("ordered rooted trees with <= %d tips (polytomies, zero-length edges and equal node heights included), "
                                      "node heights in 1..2 height units of 4 quarter units with <= 1 single-child node%s; every tree without "
                                      "single-child nodes and heights <= 2 also with one tip perturbed by prec-1, prec, prec+1 quarter units "
                                      "either way: all %d states of the TLC dump(s)"
                                      % (nl, "" if ctx.quick else ", and heights in 1..3 without single-child nodes", nmodel))
    ctx.assumptions.append("Colless/Sackin 'yule' and 'pda' normalisations and the square root of the Pybus-Harvey gamma are removed by the "
                           "harness with the closed-form factor (a function of the tip count only); TLC judges the remaining rational "
                           "against the exact raw statistic / numerator/T (DESIGN 5)")
    ctx.assumptions.append("lengths are multiples of 1/4 and precisions powers of two, so the library's floating-point sums and threshold "
                           "comparisons are exact; behaviour on arbitrary floats near the precision is not decided")
    ctx.assumptions.append("statistics are judged only inside their documented preconditions (Colless: strictly bifurcating, >= 3 tips for "
                           "the 'max' normalisation; gamma: bifurcating, exactly ultrametric, >= 3 tips, positive height; treeness: positive "
                           "total length); outcomes outside them are logged and ignored")
    for i in (min(len(driven) - 1, 40), len(driven) - 1):
        ctx.add_sample({"case": driven[i][0], "event": driven[i][1][0]["runs"][0]})


def replay(ctx, rec):
    driven = ctx.drive([rec["case"]], run_case, parallel=False)
    ctx.judge("Trace_NodeAges", driven)
    ctx.rule = "replay of one recorded case"
    ctx.add_sample({"case": rec["case"]})
