"""C05 - split frequencies, consensus trees and support annotations are exact.

spec/SplitDist.tla defines the split distribution as a state machine over exact
rationals (CountTree / Update / Freq / Consensus / Collapse / Cred) and the
clauses of the property; MC_SplitDist (TLC) checks the reference design on every
multiset of small trees x weights x thresholds x both rootings (and that the
frequency cache is never stale; Stale_SplitDist.cfg shows the invariant can
fail); TLC's dumped multisets are replayed on real SplitDistribution / TreeArray
/ TreeList objects, seeded random samples of 3-12 related trees with 6-10 leaves
are added, and Trace_SplitDist (TLC) judges every logged call.

The Python side is a driver: it builds objects, calls the public API, projects
what it sees (floats as rationals, vlib/x_c05.frat) and logs events.
"""
import copy
import os
import random
import re

from vlib import core, tlaval, proj, build
from vlib import x_c05 as X

ID = "C05"

HEAP = "3g"          # the models are small; keep the footprint low
GTH = [1, 2, 1]
THR_MODEL = [[13, 50, 0], [1, 2, 0], GTH, [3, 4, 0], [1, 1, 0]]
THR_MORE = [[1, 3, 0], [2, 3, 0], [1, 4, 0], [1, 10, 0], [3, 5, 0], [2, 5, 0], [1, 2, 0], GTH, [1, 1, 0]]


def thr_float(dendropy, thr):
    if thr[2]:
        from dendropy.utility import constants
        return constants.GREATER_THAN_HALF
    return float(thr[0]) / thr[1]


class World(object):
    def __init__(self, dendropy, case):
        self.dp = dendropy
        self.case = case
        self.rng = random.Random(case["seed"])
        self.ns, self.taxa = build.make_namespace(dendropy, case["n"], holes=tuple(case.get("holes", ())))
        self.codes = sorted(int(self.ns.accession_index(t)) + 1 for t in self.taxa)
        self.rooted = bool(case["rooted"])
        self.uw, self.el, self.ag = bool(case["uw"]), bool(case["el"]), bool(case["ag"])
        self.evs = []
        self.holders = {}
        self.inexact = 0
        self.tl_weights = []          # tree.weight of the trees appended to the TreeList, as given

    # ---------------------------------------------------------------- objects
    def tree(self, nested, w=None):
        t = build.build_tree(self.dp, nested, self.ns, self.taxa, rooted=self.rooted)
        if w is not None:
            t.weight = float(w[0]) / w[1]
        if self.ag and self.case["seed"] % 2:
            # history before counting: the tree was dated while its edges were twice as long (scale, date, scale back;
            # exact in binary floats).  Counting must summarise the ages of the tree as it is NOW, not the stale ones.
            try:
                t.scale_edges(2.0)
                t.calc_node_ages(ultrametricity_precision=False)
                t.scale_edges(0.5)
            except Exception:
                pass
        return t

    def new_holder(self, h, kind):
        dp = self.dp
        if kind == "sd":
            sd = dp.SplitDistribution(taxon_namespace=self.ns, use_tree_weights=self.uw,
                                      ignore_edge_lengths=not self.el, ignore_node_ages=not self.ag)
            self.holders[h] = {"kind": "sd", "obj": sd, "sd": sd, "dl": -1}
        else:
            ta = dp.TreeArray(taxon_namespace=self.ns, is_rooted_trees=self.rooted, use_tree_weights=self.uw,
                              ignore_edge_lengths=not self.el, ignore_node_ages=not self.ag)
            self.holders[h] = {"kind": "ta", "obj": ta, "sd": ta.split_distribution, "dl": 0}

    def base(self, h, action, route, raised=""):
        hd = self.holders[h]
        return {"action": action, "h": h, "uw": self.uw, "el": self.el, "ag": self.ag, "dl": hd["dl"], "ns": self.codes,
                "r": 1 if self.rooted else 0, "route": route, "raised": raised, "d": X.proj_dist(hd["sd"])}

    def call(self, fn):
        try:
            return fn(), ""
        except Exception as ex:      # outcome of the library call, judged by TLC
            return None, type(ex).__name__

    # ---------------------------------------------------------------- mutators
    def count(self, h, tree, w):
        hd = self.holders[h]
        g = proj.tree_graph(tree)
        if hd["kind"] == "sd":
            route = "sd.count_splits_on_tree"
            _, raised = self.call(lambda: hd["obj"].count_splits_on_tree(tree))
        else:
            route = "ta.add_tree"
            _, raised = self.call(lambda: hd["obj"].add_tree(tree))
        e = self.base(h, "Count", route, raised)
        e.update({"g": g, "w": list(w) if w is not None else [0, 0]})
        self.evs.append(e)

    def refused_count(self, h, nested, w, why):
        """a counting call the library documents as an error, in the middle of a counting history:
        'not-ultrametric' (node ages on), 'foreign-namespace', 'other-rooting' (TreeArray only)"""
        hd = self.holders[h]
        nested = copy.deepcopy(nested)
        if why == "not-ultrametric":
            def first_leaf(nd):
                return nd if not nd[3] else first_leaf(nd[3][0])
            lf = first_leaf(nested)
            lf[2] = (lf[2] or 0.0) + 0.5
            tree = self.tree(nested, w)
        elif why == "foreign-namespace":
            ns2, taxa2 = build.make_namespace(self.dp, self.case["n"])
            tree = build.build_tree(self.dp, nested, ns2, taxa2, rooted=self.rooted)
        else:
            tree = build.build_tree(self.dp, nested, self.ns, self.taxa, rooted=not self.rooted)
        g = proj.tree_graph(tree, codes=proj.TaxonCodes(self.ns))
        if hd["kind"] == "sd":
            route = "sd.count_splits_on_tree"
            _, raised = self.call(lambda: hd["obj"].count_splits_on_tree(tree))
        else:
            route = "ta.add_tree"
            _, raised = self.call(lambda: hd["obj"].add_tree(tree))
        e = self.base(h, "Count", route, raised)
        e.update({"g": g, "w": list(w) if w is not None else [0, 0]})
        self.evs.append(e)

    def update(self, h, o):
        hd, od = self.holders[h], self.holders[o]
        route = "sd.update" if hd["kind"] == "sd" else "ta.update"
        _, raised = self.call(lambda: hd["obj"].update(od["obj"]))
        e = self.base(h, "Update", route, raised)
        e["o"] = o
        self.evs.append(e)

    def merge(self, h, o, o2):
        """h = o + o2 (TreeArray.__add__): a new array, both operands must stay as they are"""
        a, b = self.holders[o]["obj"], self.holders[o2]["obj"]
        ta, raised = self.call(lambda: a + b)
        if ta is None:
            ta = self.dp.TreeArray(taxon_namespace=self.ns)
        self.holders[h] = {"kind": "ta", "obj": ta, "sd": ta.split_distribution, "dl": 0}
        e = self.base(h, "Merge", "ta.__add__", raised)
        e["o"], e["o2"] = o, o2
        self.evs.append(e)

    def edit_target(self, tree):
        """change the structure of a tree that already carries a bipartition encoding, without updating it"""
        rng = self.rng
        leaves = [nd for nd in tree.leaf_node_iter()]
        a, b = rng.sample(leaves, 2)
        a.taxon, b.taxon = b.taxon, a.taxon
        if rng.random() < 0.6:
            seed = tree.seed_node
            movable = [x for x in leaves if x.parent_node is not None and (x.parent_node is not seed or len(seed.child_nodes()) >= 4)]
            inner = [nd for nd in tree.preorder_internal_node_iter()]
            if movable and len(inner) > 1:
                x = rng.choice(movable)
                q = rng.choice([nd for nd in inner if nd is not x.parent_node])
                x.parent_node.remove_child(x)
                q.add_child(x)

    def history(self, h, nested, thr, first, both=True):
        """target encoded and summarised earlier, then edited without update_bipartitions, then observed:
        the clauses must hold on the current structure"""
        hd = self.holders[h]
        tree = self.tree(nested)
        _, r0 = self.call(lambda: hd["obj"].summarize_splits_on_tree(tree))
        if r0:
            return
        self.edit_target(tree)
        if first == "collapse":
            g0 = proj.tree_graph(tree)
            mf = thr_float(self.dp, thr)
            _, raised = self.call(lambda: hd["obj"].collapse_edges_with_less_than_minimum_support(tree, min_freq=mf))
            e = self.base(h, "Collapse", hd["kind"] + ".collapse_edges_with_less_than_minimum_support/edited-after-encoding", raised)
            e.update({"thr": thr, "g0": g0, "g1": proj.tree_graph(tree)})
            self.evs.append(e)
            if not both:
                return
        _, raised = self.call(lambda: hd["obj"].summarize_splits_on_tree(tree))
        g, a = self.annot(tree, {})
        e = self.base(h, "Summarize", hd["kind"] + ".summarize_splits_on_tree/edited-after-encoding", raised)
        e.update({"g": g, "a": a})
        self.evs.append(e)

    def rebuild(self, h, src, route, tl):
        kw = dict(use_tree_weights=self.uw, ignore_edge_lengths=not self.el, ignore_node_ages=not self.ag)
        if route == "tl.as_tree_array":
            ta, raised = self.call(lambda: tl.as_tree_array(**kw))
            if ta is None:
                ta = self.dp.TreeArray(taxon_namespace=self.ns)
            self.holders[h] = {"kind": "ta", "obj": ta, "sd": ta.split_distribution, "dl": 0}
        else:
            sd, raised = self.call(lambda: tl.split_distribution(**kw))
            if sd is None:
                sd = self.dp.SplitDistribution(taxon_namespace=self.ns)
            self.holders[h] = {"kind": "sd", "obj": sd, "sd": sd, "dl": -1}
        e = self.base(h, "Rebuild", route, raised)
        e["o"] = src
        e["ws"] = [list(x) if x is not None else [0, 0] for x in self.tl_weights]
        self.evs.append(e)

    # ---------------------------------------------------------------- observations
    def freqs(self, h, nq=6):
        hd = self.holders[h]
        sd = hd["sd"]
        (tab, raised) = self.call(lambda: X.freq_table(sd))
        fsp, fv = tab if tab is not None else ([], [])
        # lookups: some splits of the table and some arbitrary taxon subsets (most of them in no tree)
        masks = list(sd.split_counts.keys())
        self.rng.shuffle(masks)
        qm = masks[:nq]
        bits = [c - 1 for c in self.codes]
        for _ in range(nq):
            m = 0
            for b in bits:
                if self.rng.random() < 0.5:
                    m |= 1 << b
            qm.append(m)
        qm = sorted(set(qm))
        qv = []
        for m in qm:
            v, r2 = self.call(lambda: sd[m])
            raised = raised or r2
            qv.append(X.frat(v, 1000))
        e = self.base(h, "Freqs", hd["kind"] + ".split_frequencies", raised)
        e.update({"fsp": fsp, "fv": fv, "qsp": [proj.codes_of_mask(m) for m in qm], "qv": qv})
        self.evs.append(e)

    def sum_kwargs(self, opts):
        kw = {}
        if opts.get("pct"):
            kw["support_as_percentages"] = True
        if opts.get("aslab"):
            kw["set_support_as_node_label"] = True
            kw["support_label_decimals"] = opts.get("dec", 4)
        if opts.get("sel"):
            kw["set_edge_lengths"] = opts["sel"]
        return kw

    def annot(self, tree, opts):
        ids = {}
        g = proj.tree_graph(tree, node_ids=ids)
        order = ids.pop("__order__")
        a, nin = X.annot_block(order, opts)
        self.inexact += nin
        return g, a

    def consensus(self, h, thr, route, opts, tl=None):
        hd = self.holders[h]
        mf = thr_float(self.dp, thr)
        kw = self.sum_kwargs(opts)
        if route == "tl.consensus":
            fn = lambda: tl.consensus(min_freq=mf, use_tree_weights=self.uw, ignore_edge_lengths=not self.el,
                                      ignore_node_ages=not self.ag, **kw)
        elif route == "treesum.tree_from_splits":
            # the legacy summarizer builds the consensus from the same distribution (no summaries requested)
            from dendropy.calculate import treesum
            fn = lambda: treesum.TreeSummarizer(support_as_labels=False).tree_from_splits(hd["sd"], min_freq=mf, include_edge_lengths=False)
            opts = None
        else:
            fn = lambda: hd["obj"].consensus_tree(min_freq=mf, **kw)
        tree, raised = self.call(fn)
        e = self.base(h, "Consensus", route, raised)
        if tree is None:
            e.update({"thr": thr, "g": proj.tree_graph(self.dp.Tree(taxon_namespace=self.ns)), "a": X.NOA})
        elif opts is None:
            e.update({"thr": thr, "g": proj.tree_graph(tree), "a": X.NOA})
        else:
            g, a = self.annot(tree, opts)
            e.update({"thr": thr, "g": g, "a": a})
        self.evs.append(e)

    def summarize(self, h, nested, opts, what):
        hd = self.holders[h]
        tree = self.tree(nested)
        kw = self.sum_kwargs(opts)
        _, raised = self.call(lambda: hd["obj"].summarize_splits_on_tree(tree, **kw))
        g, a = self.annot(tree, opts)
        e = self.base(h, "Summarize", hd["kind"] + ".summarize_splits_on_tree/" + what, raised)
        e.update({"g": g, "a": a})
        self.evs.append(e)

    def collapse(self, h, nested, thr, what):
        hd = self.holders[h]
        tree = self.tree(nested)
        g0 = proj.tree_graph(tree)
        mf = thr_float(self.dp, thr)
        _, raised = self.call(lambda: hd["obj"].collapse_edges_with_less_than_minimum_support(tree, min_freq=mf))
        e = self.base(h, "Collapse", hd["kind"] + ".collapse_edges_with_less_than_minimum_support/" + what, raised)
        e.update({"thr": thr, "g0": g0, "g1": proj.tree_graph(tree)})
        self.evs.append(e)

    def cred(self, h, kind, route, tl=None):
        """h must be a TreeArray holder (the collection that reports the scores)"""
        hd = self.holders[h]
        ta = hd["obj"]
        calc = ta.calculate_log_product_of_split_supports if kind == "product" else ta.calculate_sum_of_split_supports
        res, raised = self.call(calc)
        scores, idx = res if res is not None else ([], -1)
        if route.startswith("tl."):
            meth = tl.maximum_product_of_split_support_tree if kind == "product" else tl.maximum_sum_of_split_support_tree
        else:
            meth = ta.maximum_product_of_split_support_tree if kind == "product" else ta.maximum_sum_of_split_support_tree
        tree, r2 = self.call(meth)
        raised = raised or r2
        e = self.base(h, "Cred", route, raised)
        if tree is None:
            e.update({"kind": kind, "ranks": [], "idx": 0, "g": proj.tree_graph(self.dp.Tree(taxon_namespace=self.ns)), "a": X.NOA})
        else:
            if route.startswith("tl."):
                g, a = proj.tree_graph(tree), X.NOA
            else:
                g, a = self.annot(tree, {})
            e.update({"kind": kind, "ranks": X.dense_ranks(scores), "idx": int(idx) + 1 if idx is not None else 0, "g": g, "a": a})
        self.evs.append(e)


OPTS = [{}, {"pct": True}, {"aslab": True, "dec": 4}, {"aslab": True, "dec": 2, "pct": True}, {"aslab": True, "dec": 0, "pct": True},
        {"sel": "support"}, {"sel": "mean-length"}, {"sel": "median-length"}, {"aslab": True, "dec": 3}]
OPTS_AGE = [{"sel": "mean-age"}, {"sel": "median-age"}]


def has_len_summaries(sd):
    """some split has a complete list of numeric edge lengths (the summarizer's own precondition for *-length)"""
    return any(vals and all(v is not None for v in vals) for vals in sd.split_edge_lengths.values())


def battery(w, h, tl, case, full):
    """observations on holder h (its distribution holds exactly the trees of tl)"""
    rng = w.rng
    hd = w.holders[h]
    thrs = case["thr"]
    if case["trees"]:
        # straight after the last tree was added: the summaries must not come from an earlier, smaller sample
        w.summarize(h, case["trees"][-1]["nested"], {}, "input")
    w.freqs(h)
    for k, thr in enumerate(thrs):
        opts = OPTS[k % 5] if full else ({} if k % 2 == 0 else {"pct": True})
        w.consensus(h, thr, hd["kind"] + ".consensus_tree", opts)
    if full:
        w.consensus(h, rng.choice(thrs), "treesum.tree_from_splits", {})
    trees = case["trees"] + (case.get("other") or [] if case.get("merged") else [])
    targets = [("input", t["nested"]) for t in trees] + [("foreign", n) for n in case.get("foreign", [])]
    if not full and len(targets) > 3:
        targets = rng.sample(targets, 3)
    for k, (what, nested) in enumerate(targets):
        pool = OPTS + (OPTS_AGE if w.ag else [])
        opts = rng.choice(pool)
        if opts.get("sel") in ("mean-length", "median-length") and not has_len_summaries(hd["sd"]):
            opts = {}          # documented precondition: ValueError("Edge lengths not available") otherwise
        w.summarize(h, nested, opts, what)
        w.collapse(h, nested, rng.choice(thrs), what)
        if full:
            w.collapse(h, nested, rng.choice(thrs), what)
    if case["trees"]:
        big = [t["nested"] for t in case["trees"]] + list(case.get("foreign", []))
        w.history(h, rng.choice(big), rng.choice(thrs), "collapse" if full or case["seed"] % 3 else "summarize", both=full)
        if full:
            w.history(h, rng.choice(big), rng.choice(thrs), "summarize")


def run_case(case):
    import dendropy
    w = World(dendropy, case)
    rng = w.rng
    full = case["kind"] == "random"
    tl = dendropy.TreeList(taxon_namespace=w.ns)
    w.new_holder(1, case["holder"])
    trees = case["trees"]
    probe_at = rng.randrange(len(trees)) if trees else -1
    # refused calls interleaved with the accepted ones: the caller catches the documented error and goes on counting
    kinds = ["foreign-namespace"] + (["other-rooting"] if case["holder"] == "ta" else []) + (["not-ultrametric"] * 3 if w.ag else [])
    refuse_at = rng.randrange(len(trees) + 1) if trees else -1
    for k, t in enumerate(trees):
        if k == refuse_at or (full and k > 0 and rng.random() < 0.2):
            src = rng.choice(trees)
            w.refused_count(1, src["nested"], src["w"], rng.choice(kinds))
        tr = w.tree(t["nested"], t["w"])
        tl.append(tr)
        w.tl_weights.append(t["w"])
        w.count(1, tr, t["w"])
        if k == probe_at and k < len(trees) - 1:
            # fill the frequency cache before more trees are added
            w.freqs(1, nq=3)
            w.summarize(1, t["nested"], {}, "input")
            if full:
                w.consensus(1, rng.choice(case["thr"]), w.holders[1]["kind"] + ".consensus_tree", {})
    if trees and refuse_at == len(trees):
        src = rng.choice(trees)
        w.refused_count(1, src["nested"], src["w"], rng.choice(kinds))
    battery(w, 1, tl, case, full)
    # TreeList routes: a distribution / array built in one call from the same trees
    w.rebuild(3, 1, "tl.as_tree_array", tl)
    if full:
        w.freqs(3, nq=3)
    nthr = len(case["thr"])
    for k, thr in enumerate(case["thr"]):
        if full or k == case["seed"] % nthr:
            w.consensus(3, thr, "tl.consensus", OPTS[(k + 1) % 5] if full else {}, tl=tl)
    for j, (kind, route) in enumerate((("product", "ta"), ("sum", "tl"), ("sum", "ta"), ("product", "tl"))):
        if route == "tl" and not w.uw:
            continue        # TreeList.maximum_*_tree() has no switch for tree weights: not comparable with an unweighted array
        if full or (j < 2) == (case["seed"] % 2 == 0):
            w.cred(3, kind, "%s.maximum_%s_of_split_support_tree" % (route, kind), tl=tl)
    if full or case.get("rebuild_sd"):
        w.rebuild(4, 1, "tl.split_distribution", tl)
        w.freqs(4, nq=3)
    # merging a second distribution
    if case.get("other"):
        w.new_holder(2, case["holder"])
        for t in case["other"]:
            tr = w.tree(t["nested"], t["w"])
            tl.append(tr)
            w.count(2, tr, t["w"])
        w.update(1, 2)
        case = dict(case)
        case["merged"] = True
        w.freqs(1)
        for k, thr in enumerate(case["thr"]):
            if full or k % 2 == 1:
                w.consensus(1, thr, w.holders[1]["kind"] + ".consensus_tree", {"pct": True} if k % 2 else {})
        tg = rng.choice(case["trees"] + case["other"])
        w.summarize(1, tg["nested"], rng.choice(OPTS[:6]), "input")
        w.collapse(1, tg["nested"], rng.choice(case["thr"]), "input")
        if w.holders[1]["kind"] == "ta":
            for kind in ("product", "sum"):
                w.cred(1, kind, "ta.maximum_%s_of_split_support_tree" % kind)
        # the operand is still the distribution of its own trees; more trees into either object leave the other alone
        allt = case["trees"] + case["other"]
        if full:
            w.summarize(2, case["other"][-1]["nested"], {}, "input")
        x = rng.choice(allt)
        w.count(1, w.tree(x["nested"], x["w"]), x["w"])
        if full:
            w.freqs(2, nq=2)
        w.summarize(2, case["other"][0]["nested"], rng.choice(OPTS[:2] + OPTS[6:8]) if has_len_summaries(w.holders[2]["sd"]) else {}, "input")
        x = rng.choice(allt)
        w.count(2, w.tree(x["nested"], x["w"]), x["w"])
        w.summarize(1, case["trees"][0]["nested"], {}, "input")
        if w.holders[1]["kind"] == "ta" and (full or case["seed"] % 2 == 0):
            # a + b: a new array; both operands and the sum are re-read, also after one more tree went into an operand
            w.merge(5, 1, 2)
            w.summarize(1, case["trees"][-1]["nested"], {}, "input")
            if full:
                w.summarize(2, case["other"][-1]["nested"], {}, "input")
            x = rng.choice(allt)
            w.count(2, w.tree(x["nested"], x["w"]), x["w"])
            w.summarize(5, x["nested"], {}, "input")
            w.summarize(1, x["nested"], {}, "input")
            if full:
                w.consensus(5, rng.choice(case["thr"]), "ta.consensus_tree", {"sel": "mean-length"} if has_len_summaries(w.holders[5]["sd"]) else {})
    if w.inexact:
        w.evs[-1]["inexact"] = w.inexact
    for e in w.evs:
        e.setdefault("inexact", 0)
    return w.evs


# ---------------------------------------------------------------------- case generation

def model_cases(ctx, cfg):
    """TLC's dumped multisets (MC_SplitDist with Observe = FALSE) -> cases"""
    dump = os.path.join(ctx.work, "c05.dump")
    ctx.model("MC_SplitDist", cfg, extra=("-dump", dump), count=False, heap=HEAP)
    # TLC prints the root clade 1..N as an interval: spell it out for the value parser
    with open(dump) as f:
        txt = f.read()
    txt = re.sub(r"(\d+)\.\.(\d+)", lambda m: "{" + ", ".join(str(i) for i in range(int(m.group(1)), int(m.group(2)) + 1)) + "}", txt)
    with open(dump, "w") as f:
        f.write(txt)
    states = tlaval.read_dump(dump)
    os.remove(dump)
    cases = []
    rng = random.Random(ctx.seed + 505)
    nt = None
    for k, st in enumerate(states):
        ms = st["ms"]
        if not ms:
            continue
        # number of taxa = size of the root clade of the length table
        n = max(len(c) for c in ms[0]["len"].keys())
        nt = n
        trees = []
        for it in ms:
            H = [frozenset(t - 1 for t in c) for c in it["h"]]
            lens = dict((frozenset(t - 1 for t in c), (v / 4.0 if v >= 0 else None)) for c, v in it["len"].items())
            ultra = bool(st["rooted"]) and k % 4 == 1
            if ultra:
                lens = X.random_lengths(rng, set(H), n, "ultra")
            nested = X.nested_from_clades(H, n, lens, rng=rng, p_unif=0.0 if ultra else 0.15)
            trees.append({"nested": nested, "w": list(it["wq"])})
        holder = "ta" if k % 2 else "sd"
        case = {"kind": "model", "seed": ctx.seed * 7919 + k, "n": n, "rooted": bool(st["rooted"]), "uw": (k % 11) != 0,
                "el": (k % 13) != 0, "ag": bool(st["rooted"]) and k % 4 == 1, "holder": holder, "trees": trees[:1] if len(trees) > 1 and k % 3 == 0 else trees,
                "thr": THR_MODEL, "foreign": [], "rebuild_sd": k % 5 == 0,
                "lmode": "ultra" if (bool(st["rooted"]) and k % 4 == 1) else ("none" if all(v < 0 for it in ms for v in it["len"].values()) else "num")}
        if len(trees) > 1 and k % 3 == 0:
            case["other"] = trees[1:]
        cases.append(case)
    return cases, len(states), nt


def random_cases(ctx, count):
    rng = random.Random(ctx.seed + 5)
    cases = []
    for k in range(count):
        n = rng.randint(6, 10)
        ntrees = rng.randint(3, 12)
        rooted = rng.random() < 0.5
        ag = rooted and rng.random() < 0.4
        lmode = "ultra" if ag else rng.choice(("num", "num", "num", "none"))
        base = X.random_hierarchy(rng, n)
        pool = []
        trees = []
        for i in range(ntrees):
            r = rng.random()
            if pool and r < 0.25:
                H = rng.choice(pool)                       # an exact repeat of a topology
            elif r < 0.9:
                H = X.perturb(rng, base, n, rng.randint(0, 3))
            else:
                H = X.random_hierarchy(rng, n, p_resolve=rng.choice((0.5, 0.9)))
            pool.append(H)
            lens = X.random_lengths(rng, H, n, lmode)
            nested = X.nested_from_clades(H, n, lens, rng=rng, p_unif=0.0 if ag else 0.08)
            wsel = rng.random()
            wq = None if wsel < 0.15 else rng.choice(([1, 2], [1, 1], [2, 1]))
            if k % 4 == 0:
                wq = None if wsel < 0.3 else [1, 1]           # unweighted samples
            trees.append({"nested": nested, "w": wq})
        foreign = []
        for i in range(2):
            H = X.random_hierarchy(rng, n) if i else X.perturb(rng, base, n, 4)
            foreign.append(X.nested_from_clades(H, n, X.random_lengths(rng, H, n, "num" if lmode != "none" else "none"), rng=rng))
        thr = [GTH] + rng.sample(THR_MORE, 3) + [rng.choice(THR_MODEL)]
        split_at = rng.randint(2, ntrees - 1) if (ntrees >= 4 and rng.random() < 0.5) else ntrees
        holes = []
        if rng.random() < 0.25:
            holes = sorted(rng.sample(range(n + 2), 2))
        case = {"kind": "random", "seed": ctx.seed * 104729 + k, "n": n, "holes": holes, "rooted": rooted,
                "uw": rng.random() < 0.85, "el": rng.random() < 0.9, "ag": ag, "holder": rng.choice(("sd", "ta")),
                "trees": trees[:split_at], "thr": thr, "foreign": foreign, "lmode": lmode}
        if split_at < ntrees:
            case["other"] = trees[split_at:]
        cases.append(case)
    return cases


def nontrivial_key(case, e):
    if e["action"] == "Consensus":
        return ["cons", e["thr"], e["r"], e["d"]["sp"], e["d"]["cnt"]]
    if e["action"] == "Count":
        return ["count", e["g"]["par"], e["g"]["tx"], e["w"], e["d"]["n"]]
    return None


def finish_drift(ctx):
    """verdicts whose clause starts with 'drift:' are differences the property leaves free: counted, never failing"""
    keep = []
    for v in ctx.verdicts:
        if str(v.get("clause", "")).startswith("drift:"):
            k = v["clause"][6:] + "/" + str(v.get("class", ""))
            ctx.drift[k] = ctx.drift.get(k, 0) + 1
        else:
            keep.append(v)
    ctx.verdicts[:] = keep


def run(ctx):
    quick = ctx.quick
    # 1. the reference design satisfies the clauses on the bounded domain; the cache is never stale
    if quick:
        ctx.model("MC_SplitDist", "MC_SplitDist_quick.cfg", heap=HEAP)
    else:
        ctx.model("MC_SplitDist", "MC_SplitDist_w3_thorough.cfg", heap=HEAP)      # <= 2 trees, 4 taxa, 3 weights, 7 thresholds
        ctx.model("MC_SplitDist", "MC_SplitDist_thorough.cfg", heap=HEAP)         # <= 3 trees, 4 taxa, 2 weights
        ctx.model("MC_SplitDist", "MC_SplitDist_n5_thorough.cfg", heap=HEAP)      # <= 2 trees, 5 taxa
    # Update(a, b); CountTree(a, ..): b stays the distribution of its own tree; an update() that adopts b's lists is caught
    ctx.model("MC_SplitDist", "MC_SplitDist_operand.cfg", heap="1g", count=False)
    ctx.model("MC_SplitDist", "Alias_SplitDist.cfg", expect_violation="OperandIntact", count=False, heap="1g")
    # a refused counting call is the identity; book-keeping done before the refusing check is caught
    ctx.model("MC_SplitDist", "Refuse_SplitDist.cfg", expect_violation="FreqExact", count=False, heap="1g")
    # ... and a cache that ignores newly counted trees is caught (non-vacuity of CacheFresh)
    ctx.model("MC_SplitDist", "Stale_SplitDist.cfg", expect_violation="CacheFresh", count=False, heap="1g")
    # 2. spec -> code: the dumped multisets on real objects
    if quick:
        cases, nstates, nt = model_cases(ctx, "MC_SplitDist_dom_quick.cfg")
        domain = "<= 2 trees on 4 taxa x weights {1/2, 2} x both rootings (all %d states)" % nstates
    else:
        cases, n1, nt = model_cases(ctx, "MC_SplitDist_dom_w3_thorough.cfg")
        c3, n3, _ = model_cases(ctx, "MC_SplitDist_dom_thorough.cfg")
        c5, n5, _ = model_cases(ctx, "MC_SplitDist_dom_n5_thorough.cfg")
        c5 = random.Random(ctx.seed + 55).sample(c5, min(len(c5), 5000))
        cases = cases + c3 + c5
        nstates = n1 + n3 + n5
        domain = ("<= 2 trees on 4 taxa x weights {1/2, 1, 2} (all %d states), <= 3 trees on 4 taxa (all %d states), "
                  "<= 2 trees on 5 taxa (%d of %d states, seeded sample), both rootings" % (n1, n3, len(c5), n5))
    nmodel = len(cases)
    # 3. seeded random samples of related trees
    nrand = 48 if quick else 600
    rnd = random_cases(ctx, nrand)
    driven = ctx.drive(cases + rnd, run_case, chunksize=4)
    ctx.judge("Trace_SplitDist", driven, batch=2500, heap="1500m")
    finish_drift(ctx)
    ninexact = 0
    for case, evs in driven:
        for e in evs:
            ninexact += e.get("inexact", 0)
            k = nontrivial_key(case, e)
            if k is not None and e["d"]["n"] >= 2:
                ctx.add_nontrivial(k)
    ctx.drift["float_not_within_1e-12_of_its_rational"] = ninexact
    ctx.rule = ("cases = the multisets of TLC's dump of MC_SplitDist (%s) replayed on real SplitDistribution/TreeArray/TreeList objects "
                "with shuffled child orders and inserted unifurcations, + %d seeded random samples (3-12 related trees, 6-10 leaves, "
                "weights {1/2,1,2,None}); distinct_nontrivial = distinct (tree, weight, position) counting events and distinct "
                "(distribution state, threshold) consensus events with >= 2 trees counted" % (domain, nrand))
    ctx.exhaustive = False
    ctx.extra["model_multisets_replayed"] = nmodel
    ctx.assumptions.append("sd is compared squared (sd*sd represented as a rational), hpd95 / quant_5_95 are not judged, log-product scores only through "
                           "their order (DESIGN 5); summaries are judged for splits whose collected values are all numbers (>= 2 values for sd)")
    ctx.assumptions.append("root-to-tip distances after collapse are judged on rooted targets and on unrooted targets whose seed is not a bifurcation "
                           "(encoding such a tree merges its basal edges and moves the seed)")
    if driven:
        c0, e0 = driven[min(5, len(driven) - 1)]
        ctx.add_sample({"case_kind": c0["kind"], "rooted": c0["rooted"], "event": e0[0]})
        c1, e1 = driven[-1]
        ctx.add_sample({"case_kind": c1["kind"], "ntrees": len(c1["trees"]), "event": [e for e in e1 if e["action"] == "Consensus"][0]})


def replay(ctx, rec):
    driven = ctx.drive([rec["case"]], run_case, parallel=False)
    ctx.judge("Trace_SplitDist", driven)
    finish_drift(ctx)
    ctx.rule = "replay of one recorded case"
    ctx.add_sample({"case": {k: v for k, v in rec["case"].items() if k not in ("trees", "other", "foreign")}})
