"""C16 - parsimony scores are minimal change counts and pure functions of (tree, matrix).

spec/Fitch.tla      definitions: Cost / MinCostFull / MinCost (brute force), FitchScore (down pass),
                    ScoreOp (one scoring call on a tree carrying a cache), Reroot / Rotate
spec/MC_Fitch.tla   SpecT: the theorem table (Fitch = minimum, per-character sums, root / order
                    invariance, lemmas) on all bifurcating shapes x matrices (TLC, exhaustive);
                    SpecS: the purity state machine (cache on the nodes; Score / Reroot / Rotate);
                    AsShipped_Fitch.cfg: cached leaf sets reused -> TLC finds the two-call counterexample
spec/Trace_Fitch.tla  TLC judges every logged real call against MinCost (total verdicts)

Binding: M1 every input of TLC's dump of SpecT is built as a real Tree + Standard (exact) and Dna
(embedded) matrix and scored through parsimony_score / treescore / fitch_down_pass on fresh trees;
M2 every transition of the dumped SpecS graph is replayed on one real tree object (shortest model
path, then the transition); M3 all of that plus seeded random histories on trees with 5-9 leaves is
logged and judged by TLC.  This file contains no oracle: it never computes an expected score.
"""
import os
import random
import re

from vlib import core, tlaval, proj, build

ID = "C16"

# ------------------------------------------------------------------ alphabets and matrices (inputs)
# model cell (frozenset over 0..3, 3 = gap) -> symbol of the 3-state Standard alphabet the driver defines
STD3 = {"fund": ["0", "1", "2"], "gap": "-", "missing": "?",
        "amb": [{"sym": "a", "mem": ["0", "1"]}, {"sym": "b", "mem": ["0", "2"]},
                {"sym": "c", "mem": ["1", "2"]}, {"sym": "n", "mem": ["0", "1", "2"]}]}
STD3_SYM = {frozenset([0]): "0", frozenset([1]): "1", frozenset([2]): "2", frozenset([0, 1]): "a",
            frozenset([0, 2]): "b", frozenset([1, 2]): "c", frozenset([0, 1, 2]): "n",
            frozenset([3]): "-", frozenset([0, 1, 2, 3]): "?"}
STD2 = {"fund": ["0", "1"], "gap": "-", "missing": "?", "amb": [{"sym": "a", "mem": ["0", "1"]}]}
# names in braces are ANONYMOUS ambiguity codes (state symbol None, as NEXUS "{01}" produces); the name only
# exists in the driver and in the log
STD4 = {"fund": ["p", "q", "r", "s"], "gap": "-", "missing": "?",
        "amb": [{"sym": "x", "mem": ["p", "q"]}, {"sym": "y", "mem": ["q", "r", "s"]}, {"sym": "z", "mem": ["p", "s"]},
                {"sym": "{pq}", "mem": ["p", "q"]}, {"sym": "{rs}", "mem": ["r", "s"]}, {"sym": "{qs}", "mem": ["q", "s"]}]}
# "kind": "poly" = a POLYMORPHIC multistate code (NEXUS "(01)"); like an ambiguity code it is a state set
STD3P = {"fund": ["0", "1", "2"], "gap": "-", "missing": "?",
         "amb": [{"sym": "e", "mem": ["0", "1"], "kind": "poly"}, {"sym": "f", "mem": ["0", "2"], "kind": "poly"},
                 {"sym": "h", "mem": ["1", "2"], "kind": "poly"}, {"sym": "(012)", "mem": ["0", "1", "2"], "kind": "poly"},
                 {"sym": "a", "mem": ["0", "1"]}, {"sym": "(01)", "mem": ["0", "1"], "kind": "poly"}]}
STD3P_SYM = {frozenset([0]): "0", frozenset([1]): "1", frozenset([2]): "2", frozenset([0, 1]): "e",
             frozenset([0, 2]): "f", frozenset([1, 2]): "h", frozenset([0, 1, 2]): "(012)",
             frozenset([3]): "-", frozenset([0, 1, 2, 3]): "?"}
DNA_POLY = [{"sym": "(AC)", "mem": ["A", "C"], "kind": "poly"}, {"sym": "(AGT)", "mem": ["A", "G", "T"], "kind": "poly"},
            {"sym": "(GT)", "mem": ["G", "T"], "kind": "poly"}]
_DNA_POLY_STATES = {}
STD3A = {"fund": ["0", "1", "2"], "gap": "-", "missing": "?",
         "amb": [{"sym": "a", "mem": ["0", "1"]}, {"sym": "{01}", "mem": ["0", "1"]}, {"sym": "{12}", "mem": ["1", "2"]},
                 {"sym": "{02}", "mem": ["0", "2"]}]}
# IUPAC code of a set of bases (used only to WRITE cells; their meaning is judged by Trace_Fitch.DnaAlpha)
DNA_CODE = {"A": "A", "C": "C", "G": "G", "T": "T", "AG": "R", "CT": "Y", "AC": "M", "AT": "W", "CG": "S", "GT": "K",
            "ACG": "V", "ACT": "H", "AGT": "D", "CGT": "B", "ACGT": "N"}
DNA_PERMS = [(a, b, c) for a in "ACGT" for b in "ACGT" for c in "ACGT" if len({a, b, c}) == 3]


def dna_embed(cell, sigma):
    """model cell over 3 states -> DNA symbol under the injection sigma (tuple of 3 bases)"""
    if cell == frozenset([3]):
        return "-"
    if 3 in cell:
        return "?"
    return DNA_CODE["".join(sorted(sigma[i] for i in cell))]


def _anonymous(sym):
    return sym.startswith("{") or sym.startswith("(")


def make_matrix(dendropy, spec, ns, taxa):
    """spec: {"type", "rows": [[symbol,...] per taxon code-1], + alphabet definition for standard};
    returns (matrix, {id(anonymous state): its name in the log})"""
    nrows = len(spec["rows"])
    if spec["type"] == "dna":
        anon = {}
        for a in spec.get("amb", []):              # polymorphic multistate codes on the DNA alphabet (as "(AC)" in NEXUS)
            st = _DNA_POLY_STATES.get(a["sym"])
            if st is None:
                st = dendropy.DNA_STATE_ALPHABET.new_polymorphic_state(None, member_state_symbols="".join(a["mem"]))
                _DNA_POLY_STATES[a["sym"]] = st
            anon[a["sym"]] = st
        d = dict((t.label, [anon.get(x, x) for x in spec["rows"][k]]) for k, t in enumerate(taxa[:nrows]))
        return dendropy.DnaCharacterMatrix.from_dict(d, taxon_namespace=ns), dict((id(st), n) for n, st in anon.items())
    sa = dendropy.new_standard_state_alphabet("".join(spec["fund"]))
    anon = {}
    for a in spec["amb"]:
        new = sa.new_polymorphic_state if a.get("kind") == "poly" else sa.new_ambiguous_state
        if _anonymous(a["sym"]):
            anon[a["sym"]] = new(None, member_state_symbols="".join(a["mem"]))
        else:
            new(a["sym"], member_state_symbols="".join(a["mem"]))
    d = dict((t.label, [anon.get(x, x) for x in spec["rows"][k]]) for k, t in enumerate(taxa[:nrows]))
    m = dendropy.StandardCharacterMatrix.from_dict(d, taxon_namespace=ns, default_state_alphabet=sa)
    return m, dict((id(st), name) for name, st in anon.items())


def project_matrix(m, spec, taxa, anon_names=None):
    """the matrix the library holds, as symbols per taxon (accession order) and the alphabet that was defined"""
    anon_names = anon_names or {}
    rows = []
    for t in taxa[:len(spec["rows"])]:
        rows.append([(c.symbol if isinstance(c.symbol, str) else anon_names.get(id(c), "<%r>" % (c.symbol,))) for c in m[t]])
    if spec["type"] == "dna":
        return {"type": "dna", "fund": [], "gap": "-", "missing": "?",
                "amb": [{"sym": a["sym"], "mem": list(a["mem"])} for a in spec.get("amb", [])], "rows": rows}
    return {"type": "standard", "fund": list(spec["fund"]), "gap": spec["gap"], "missing": spec["missing"],
            "amb": [{"sym": a["sym"], "mem": list(a["mem"])} for a in spec["amb"]], "rows": rows}


# ------------------------------------------------------------------ calls
def do_score(dendropy, tree, m, api, gm, w, bylist, attr):
    """one public call; outcome logged, never interpreted"""
    from dendropy.model import parsimony
    from dendropy.calculate import treescore
    lst = [] if bylist else None
    weights = list(w) if w else None
    try:
        if api == "parsimony_score":
            s = parsimony.parsimony_score(tree, m, gaps_as_missing=gm, weights=weights, score_by_character_list=lst)
        elif api == "treescore.parsimony_score":
            s = treescore.parsimony_score(tree, m, gaps_as_missing=gm, weights=weights, score_by_character_list=lst)
        elif api == "fitch_down_pass":
            tmap = m.taxon_state_sets_map(gaps_as_missing=gm)
            s = treescore.fitch_down_pass(tree.postorder_node_iter(), state_sets_attr_name=(attr or None),
                                          taxon_state_sets_map=tmap, weights=weights, score_by_character_list=lst)
        else:
            raise core.MachineryError("unknown api " + api)
        raised = ""
    except core.MachineryError:
        raise
    except Exception as ex:
        s, raised = -1, type(ex).__name__
    if not isinstance(s, int) or isinstance(s, bool):
        s, raised = -1, raised or ("returned:" + type(s).__name__)
    by = []
    if lst is not None and raised == "":
        by = [int(x) if isinstance(x, int) and not isinstance(x, bool) else -1 for x in lst]
    return {"api": api, "gm": bool(gm), "w": list(w or []), "bylist": bool(bylist), "score": int(s), "bychar": by,
            "raised": raised}


def nested_of(tree, taxa):
    """current structure of the real tree from raw pointers (to build a fresh copy)"""
    tix = dict((id(t), k) for k, t in enumerate(taxa))

    def rec(nd):
        return [None, tix.get(id(nd.taxon)) if nd.taxon is not None else None, None, [rec(c) for c in nd._child_nodes]]
    return rec(tree._seed_node)


def collapse_root_child(nested, rng):
    """bifurcating-root nested tree -> the same unrooted tree held with a trifurcating seed node"""
    k = [i for i, c in enumerate(nested[3]) if c[3]]
    if len(nested[3]) == 2 and k:
        i = rng.choice(k)
        c = nested[3][i]
        nested[3][i:i + 1] = c[3]
    return nested


def shape_ok(tree):
    """documented precondition, read from raw pointers: fully bifurcating (seed with 2 or 3 children), >= 2 leaves"""
    seed = tree._seed_node
    if seed is None or len(seed._child_nodes) not in (2, 3):
        return False
    st = list(seed._child_nodes)
    while st:
        nd = st.pop()
        if len(nd._child_nodes) not in (0, 2) or (not nd._child_nodes and nd.taxon is None):
            return False
        st.extend(nd._child_nodes)
    return True


class World(object):
    """one real tree object with persistent node identities and the matrices of a history"""

    def __init__(self, dendropy, nested, ntax, attr):
        self.d = dendropy
        self.ns, self.taxa = build.make_namespace(dendropy, ntax)
        self.tree = build.build_tree(dendropy, nested, self.ns, self.taxa, rooted=True)
        self.attr = attr                  # "" = state sets not stored on the nodes (fitch_down_pass only)
        self.keep = []                    # node objects, index = persistent id - 1
        self.pid = {}
        self.mats = {}
        self.scored = False

    def node_id(self, nd):
        k = self.pid.get(id(nd))
        if k is None:
            self.keep.append(nd)
            k = len(self.keep)
            self.pid[id(nd)] = k
        return k

    def snapshot(self):
        ids = {}
        g = proj.tree_graph(self.tree, node_ids=ids, labels=False)
        order = ids.pop("__order__")
        nid = [self.node_id(nd) for nd in order]
        cache = []
        for nd in order:
            v = getattr(nd, self.attr, None) if self.attr else None
            if v is None:
                cache.append([])
            else:
                cache.append([sorted(int(x) for x in ss) for ss in v])
        return g, nid, cache, order

    def matrix(self, key, spec):
        if key not in self.mats:
            m, anon = make_matrix(self.d, spec, self.ns, self.taxa)
            self.mats[key] = (m, project_matrix(m, spec, self.taxa, anon))
        return self.mats[key]

    def score(self, key, spec, api, gm, w, bylist):
        m, pm = self.matrix(key, spec)
        g, nid, pre, _ = self.snapshot()
        fresh_tree = build.build_tree(self.d, nested_of(self.tree, self.taxa), self.ns, self.taxa, rooted=True)
        r = do_score(self.d, self.tree, m, api, gm, w, bylist, self.attr)
        _, nid2, post, _ = self.snapshot()
        if nid2 != nid:
            raise core.MachineryError("scoring changed the node set of the tree")
        f = do_score(self.d, fresh_tree, m, api, gm, w, bylist, self.attr)
        ev = {"action": "Score", "g": g, "nid": nid, "pre": pre, "post": post, "attr": self.attr, "m": pm,
              "fresh": {"score": f["score"], "bychar": f["bychar"], "raised": f["raised"], "bylist": f["bylist"]}}
        ev.update(r)
        self.scored = (r["raised"] == "" and self.attr != "")
        return ev

    def move(self, kind, node=None):
        """Reroot (on the edge above `node`), RerootNode (at internal `node`: trifurcating seed), Prune (leaf `node`),
        Rotate (reverse the children of `node`), UpPass"""
        g, nid, pre, _ = self.snapshot()
        try:
            if kind == "Reroot":
                self.tree.reroot_at_edge(node.edge, update_bipartitions=False)
                self.scored = False
            elif kind == "RerootNode":
                self.tree.reroot_at_node(node, update_bipartitions=False)
                self.scored = False
            elif kind == "Prune":
                self.tree.prune_taxa_with_labels([node.taxon.label])
                self.scored = False
            elif kind == "Rotate":
                node.set_child_nodes(list(reversed(node.child_nodes())))
            elif kind == "UpPass":
                from dendropy.model import parsimony
                parsimony.fitch_up_pass(self.tree.preorder_node_iter(), state_sets_attr_name=self.attr)
            raised = ""
        except Exception as ex:
            raised = type(ex).__name__
        g2, nid2, post, _ = self.snapshot()
        return {"action": "Move", "kind": kind, "g": g, "nid": nid, "pre": pre, "g2": g2, "nid2": nid2, "post": post,
                "attr": self.attr, "raised": raised}


def parents_to_nested(par, perm):
    nl = build.num_leaves([p - 1 for p in par])
    return build.nested_from_parents(list(par), [perm[i] for i in range(nl)]), nl


APIS = ["parsimony_score", "treescore.parsimony_score", "fitch_down_pass", "parsimony_score"]


# ------------------------------------------------------------------ case runners
CELLS9 = [frozenset(c) for c in ([0], [1], [2], [0, 1], [0, 2], [1, 2], [0, 1, 2], [3], [0, 1, 2, 3])]


def run_table(case):
    """one input (shape, matrix): every call on a fresh tree.  The namespace (and the matrix) may hold `extra`
    taxa that are not on the tree; with `tri` the same input is also scored on the trifurcating-seed form"""
    import dendropy
    rng = random.Random(case["seed"])
    par = case["par"]
    nl = build.num_leaves([p - 1 for p in par])
    ntax = nl + case.get("extra", 0)
    perm = list(range(ntax))
    rng.shuffle(perm)                    # leaf i (left to right) carries taxon perm[i]; perm[nl:] are not on the tree
    nested = build.nested_from_parents(list(par), perm[:nl])
    forms = [nested]
    if case.get("tri") and nl >= 3:
        forms.append(collapse_root_child(build.nested_from_parents(list(par), perm[:nl]), rng))
    ns, taxa = build.make_namespace(dendropy, ntax)
    evs = []
    for mi, spec0 in enumerate(case["mats"]):
        nchar = len(spec0["leafrows"][0])
        rows = [None] * ntax
        for i in range(nl):
            rows[perm[i]] = spec0["leafrows"][i]       # row of the taxon sitting on leaf i
        for i in range(nl, ntax):
            cells = [rng.choice(CELLS9) for _ in range(nchar)]
            rows[perm[i]] = ([(STD3P_SYM if spec0.get("poly") else STD3_SYM)[c] for c in cells] if spec0["type"] == "standard"
                             else [dna_embed(c, spec0["sigma"]) for c in cells])
        spec = dict(spec0, rows=rows)
        m, anon = make_matrix(dendropy, spec, ns, taxa)
        pm = project_matrix(m, spec, taxa, anon)
        k = rng.randrange(4)
        for form in (forms if mi == 0 else forms[:1]):
            calls = []
            g = None
            for gm in (True, False):
                for w in case["weights"]:
                    api = APIS[k % len(APIS)]
                    k += 1
                    tree = build.build_tree(dendropy, form, ns, taxa, rooted=(k % 3 != 0))
                    if g is None:
                        g = proj.tree_graph(tree, labels=False)
                    attr = "state_sets" if k % 2 else ""
                    calls.append(do_score(dendropy, tree, m, api, gm, w, True if k % 5 else False, attr))
            evs.append({"action": "Table", "g": g, "m": pm, "calls": calls})
    return evs


def model_matrix_spec(rows_cells, kind, sigma=None):
    """model rows (cells as frozensets) -> symbols"""
    if kind == "standard":
        d = dict(STD3, type="standard")
        d["leafrows"] = [[STD3_SYM[frozenset(c)] for c in row] for row in rows_cells]
    elif kind == "standard_poly":                       # every multistate cell as a POLYMORPHIC code
        d = dict(STD3P, type="standard", poly=True)
        d["leafrows"] = [[STD3P_SYM[frozenset(c)] for c in row] for row in rows_cells]
    else:
        d = {"type": "dna", "sigma": list(sigma), "leafrows": [[dna_embed(frozenset(c), sigma) for c in row] for row in rows_cells]}
    return d


def run_path(case):
    """a model behaviour (Score / Reroot / RotateAt with model arguments) on ONE real tree object"""
    import dendropy
    par = case["par"]
    nl = build.num_leaves([p - 1 for p in par])
    nested = build.nested_from_parents(list(par), list(range(nl)))
    ntax = max([nl] + [len(a[0]) for (n, a) in case["path"] if n == "Score"])
    w = World(dendropy, nested, ntax, "state_sets")
    # model node ids = preorder ids of the initial tree
    ids = {}
    proj.tree_graph(w.tree, node_ids=ids)
    order = ids.pop("__order__")
    mnode = dict((k + 1, nd) for k, nd in enumerate(order))
    evs = []
    for k, (name, args) in enumerate(case["path"]):
        if name == "Score":
            rows_cells, wt, gm = args
            spec = model_matrix_spec(rows_cells, "standard")
            spec["rows"] = spec["leafrows"]           # taxa 1..L left to right, as in the model
            key = repr(spec["rows"])
            api = APIS[(k + case["seed"]) % len(APIS)]
            ev = w.score(key, spec, api, gm, list(wt), (k + case["seed"]) % 3 != 0)
        elif name == "Reroot":
            x = args[0]
            old_root = w.tree.seed_node
            ev = w.move("Reroot", mnode[x])
            for mid, nd in list(mnode.items()):
                if nd is old_root:
                    mnode[mid] = w.tree.seed_node     # the model re-uses the id of the vanished root
        elif name == "RotateAt":
            ev = w.move("Rotate", mnode[args[0]])
        else:
            raise core.MachineryError("unknown model action %s" % name)
        evs.append(ev)
    return evs


def column_pool(rng, spec, smax, allow_gap):
    """symbols a column may use so that at most `smax` distinct states (gap included) can occur in it"""
    fund = list(spec["fund"]) if spec["type"] != "dna" else list("ACGT")
    amb = spec["amb"] if spec["type"] != "dna" else ([{"sym": c, "mem": list(k)} for k, c in DNA_CODE.items() if len(k) > 1]
                                                      + spec.get("amb", []))
    if len(fund) + 1 <= smax:
        syms = fund + [a["sym"] for a in amb] + (["-", "?"] if allow_gap else [])
        return syms
    k = rng.randint(2, min(smax, len(fund)))
    pool = rng.sample(fund, k)
    syms = list(pool) + [a["sym"] for a in amb if set(a["mem"]) <= set(pool)]
    return syms


def random_matrix(rng, nl, nchar, kind, smax):
    if kind == "dna":
        spec = {"type": "dna", "amb": rng.sample(DNA_POLY, rng.randint(1, 2)) if rng.random() < 0.35 else []}
    else:
        spec = dict(rng.choice([STD2, STD3, STD3A, STD3P, STD4]) if smax >= 5
                    else (STD2 if smax <= 3 else rng.choice([STD2, STD3, STD3A, STD3P])), type="standard")
    cols = []
    for j in range(nchar):
        pool = column_pool(rng, spec, smax, True)
        style = rng.random()
        if style < 0.3:                                 # unambiguous states only
            fund = "ACGT" if spec["type"] == "dna" else spec["fund"]
            pool = [s for s in pool if s in fund] or pool
        cols.append([rng.choice(pool) for _ in range(nl)])
        anon = [x for x in pool if x.startswith("{")]
        if len(anon) > 1 and len(cols) < nchar and rng.random() < 0.7:
            # the same column again, with one anonymous ambiguity code replaced by another one: the two
            # columns show the same symbols wherever a state has a symbol
            c1, c2 = rng.sample(anon, 2)
            col = list(cols[-1])
            for t in rng.sample(range(nl), 2):
                col[t] = c1
            cols[-1] = col
            cols.append([c2 if x == c1 else (c1 if x == c2 else x) for x in col])
    cols = cols[:nchar]
    spec["rows"] = [[cols[j][t] for j in range(nchar)] for t in range(nl)]
    return spec


SMAX = {1: 5, 2: 5, 3: 5, 4: 5, 5: 4, 6: 3, 7: 3, 8: 2}     # internal nodes -> max distinct states per column (brute force stays below ~2500 assignments)


def run_random(case):
    """seeded random history on one tree object with 5-9 leaves; the namespace / matrices may hold taxa that are
    not on the tree, the tree may start (or be re-rooted) with a trifurcating seed node, leaves may be pruned"""
    import dendropy
    rng = random.Random(case["seed"])
    nl = case["nleaves"]
    ntax = nl + rng.choice([0, 0, 1, 2])
    tix = list(range(ntax))
    rng.shuffle(tix)
    nested = build.assign(build.random_parents(rng, nl, p_poly=0.0, p_unif=0.0), rng, tix[:nl], len_none_all=True)
    if rng.random() < 0.25:
        collapse_root_child(nested, rng)
    attr = rng.choice(["state_sets", "state_sets", "state_sets", "fitch_sets", ""])
    w = World(dendropy, nested, ntax, attr)
    smax = SMAX[nl - 1]
    kinds = ["dna" if (nl <= 7 and rng.random() < 0.6) else "standard" for _ in range(3)]
    mats = []
    for i in range(rng.randint(2, 3)):
        mats.append(random_matrix(rng, ntax, rng.randint(1, 3), kinds[i], smax))
    if rng.random() < 0.5:                               # same data with one cell changed
        base = mats[0]
        alt = dict(base, rows=[list(r) for r in base["rows"]])
        t, j = rng.randrange(ntax), rng.randrange(len(base["rows"][0]))
        col = [r[j] for r in base["rows"]]
        alt["rows"][t][j] = rng.choice(col)
        mats.append(alt)
    evs = []
    last = None
    for _ in range(case["nops"]):
        if not shape_ok(w.tree):
            break                                        # a move left the documented domain: stop here
        r = rng.random()
        nodes = w.keep_nodes()
        internal = [nd for nd in nodes if nd._child_nodes]
        if r < 0.58 or not evs:
            mi = rng.randrange(len(mats))
            gm = rng.random() < 0.5
            again = last is not None and rng.random() < 0.3      # the same data again, other weights
            if again:
                mi, gm = last
            spec = mats[mi]
            nchar = len(spec["rows"][0])
            wt = [] if rng.random() < 0.5 else [rng.randint(0, 3) for _ in range(nchar)]
            api = "fitch_down_pass" if attr != "state_sets" else rng.choice(APIS)
            evs.append(w.score(mi, spec, api, gm, wt, rng.random() < (0.4 if again else 0.75)))
            last = (mi, gm)
        elif r < 0.70:
            cands = [nd for nd in nodes if nd._parent_node is not None and nd._parent_node._parent_node is not None]
            if cands:
                evs.append(w.move("Reroot", rng.choice(cands)))
        elif r < 0.79:
            cands = [nd for nd in internal if nd._parent_node is not None]
            if cands:
                evs.append(w.move("RerootNode", rng.choice(cands)))
        elif r < 0.90:
            evs.append(w.move("Rotate", rng.choice(internal)))
        elif r < 0.95:
            leaves = [nd for nd in nodes if not nd._child_nodes]
            if len(leaves) >= 4:
                evs.append(w.move("Prune", rng.choice(leaves)))
        elif w.scored and attr:
            evs.append(w.move("UpPass"))
    return evs


def _keep_nodes(self):
    """nodes currently in the tree (raw pointers), preorder"""
    out, st = [], [self.tree._seed_node]
    while st:
        nd = st.pop()
        out.append(nd)
        st.extend(reversed(nd._child_nodes))
    return out


World.keep_nodes = _keep_nodes


def run_random_table(case):
    """seeded random instance, calls on fresh trees only (larger matrices)"""
    import dendropy
    rng = random.Random(case["seed"])
    nl = case["nleaves"]
    ntax = nl + rng.choice([0, 1, 2])
    tix = list(range(ntax))
    rng.shuffle(tix)
    nested = build.assign(build.random_parents(rng, nl, p_poly=0.0, p_unif=0.0), rng, tix[:nl], len_none_all=True)
    if case.get("basal_trifurcation"):
        collapse_root_child(nested, rng)
    ns, taxa = build.make_namespace(dendropy, ntax)
    spec = random_matrix(rng, ntax, rng.randint(1, 4), "dna" if (nl <= 7 and rng.random() < 0.5) else "standard", SMAX[nl - 1])
    m, anon = make_matrix(dendropy, spec, ns, taxa)
    pm = project_matrix(m, spec, taxa, anon)
    nchar = len(spec["rows"][0])
    calls, g = [], None
    for k, gm in enumerate((True, False, rng.random() < 0.5)):
        tree = build.build_tree(dendropy, nested, ns, taxa, rooted=rng.choice([True, False, None]))
        if g is None:
            g = proj.tree_graph(tree, labels=False)
        wt = [] if k == 0 else [rng.randint(0, 3) for _ in range(nchar)]
        calls.append(do_score(dendropy, tree, m, rng.choice(APIS), gm, wt, True, rng.choice(["state_sets", "", "x_sets"])))
    return [{"action": "Table", "g": g, "m": pm, "calls": calls}]


def project_map(tmap, taxa):
    return [[sorted(int(x) for x in ss) for ss in tmap[t]] for t in taxa]


def nested_from_graph(g, code_to_index):
    def rec(x):
        return [None, code_to_index(g["tx"][x - 1]) if not g["kids"][x - 1] else None, None, [rec(c) for c in g["kids"][x - 1]]]
    return rec(g["seed"])


class PassWorld(object):
    """ONE taxon_state_sets_map per gap treatment, built once from the matrix and handed to fitch_down_pass /
    fitch_up_pass on several tree objects (the documented 'build the map once, score many trees' pattern)"""

    def __init__(self, dendropy, ntax, spec, attr):
        self.d = dendropy
        self.ns, self.taxa = build.make_namespace(dendropy, ntax)
        self.m, anon = make_matrix(dendropy, spec, self.ns, self.taxa)
        self.pm = project_matrix(self.m, spec, self.taxa, anon)
        self.rowtaxa = self.taxa[:len(spec["rows"])]
        self.attr = attr
        self.maps = {}
        self.trees = {}
        self.downed = set()

    def tmap(self, gm):
        if gm not in self.maps:
            self.maps[gm] = self.m.taxon_state_sets_map(gaps_as_missing=gm)
        return self.maps[gm]

    def tree(self, key, nested):
        if key not in self.trees:
            self.trees[key] = build.build_tree(self.d, nested, self.ns, self.taxa, rooted=True)
        return self.trees[key]

    def call(self, kind, key, nested, gm, w=(), bylist=False):
        from dendropy.model import parsimony
        tree = self.tree(key, nested)
        tmap = self.tmap(gm)
        pre = project_map(tmap, self.rowtaxa)
        lst = [] if bylist else None
        s, raised = -1, ""
        try:
            if kind == "down_pass":
                s = parsimony.fitch_down_pass(tree.postorder_node_iter(), state_sets_attr_name=(self.attr or None),
                                              taxon_state_sets_map=tmap, weights=(list(w) if w else None),
                                              score_by_character_list=lst)
                self.downed.add((key, gm))
            else:
                parsimony.fitch_up_pass(tree.preorder_node_iter(), state_sets_attr_name=self.attr, taxon_state_sets_map=tmap)
                s = 0
        except Exception as ex:
            s, raised = -1, type(ex).__name__
        if not isinstance(s, int) or isinstance(s, bool):
            s, raised = -1, raised or ("returned:" + type(s).__name__)
        by = [int(x) if isinstance(x, int) and not isinstance(x, bool) else -1 for x in lst] if (lst is not None and raised == "") else []
        return {"action": "Pass", "kind": kind, "g": proj.tree_graph(tree, labels=False), "m": self.pm, "gm": bool(gm),
                "mp_pre": pre, "mp_post": project_map(tmap, self.rowtaxa), "w": list(w or []), "bylist": bool(bylist),
                "score": int(s), "bychar": by, "raised": raised, "attr": self.attr, "api": "fitch_" + kind}


def run_ppath(case):
    """a behaviour of MC_Fitch/SpecP (DownPassOn / UpPass with ONE shared map) on real trees"""
    import dendropy
    rows = case["rows"]
    spec = model_matrix_spec(rows, "standard")
    spec["rows"] = spec["leafrows"]
    w = PassWorld(dendropy, len(rows), spec, "state_sets")
    evs, cur = [], None
    for name, args, g in case["path"]:
        if name == "DownPassOn":
            cur = (args[0], nested_from_graph(g, lambda c: c - 1))
            evs.append(w.call("down_pass", cur[0], cur[1], case["gm"], list(args[1]), (len(evs) + case["seed"]) % 3 != 0))
        elif name == "UpPass":
            evs.append(w.call("up_pass", cur[0], cur[1], case["gm"]))
        else:
            raise core.MachineryError("unknown model action %s" % name)
    return evs


def run_passes(case):
    """seeded random use of the pass functions: one matrix, one shared map per gap treatment, 2-3 tree objects of
    different topology on (subsets of) its taxa, down and up passes in sequence"""
    import dendropy
    rng = random.Random(case["seed"])
    nl = case["nleaves"]
    ntax = nl + rng.choice([0, 0, 1])
    spec = random_matrix(rng, ntax, rng.randint(1, 3), "dna" if (nl <= 7 and rng.random() < 0.5) else "standard", SMAX[nl - 1])
    attr = rng.choice(["state_sets", "state_sets", "fitch_sets", ""])
    w = PassWorld(dendropy, ntax, spec, attr)
    nested = []
    for i in range(rng.randint(2, 3)):
        tix = list(range(ntax))
        rng.shuffle(tix)
        nd = build.assign(build.random_parents(rng, nl, p_poly=0.0, p_unif=0.0), rng, tix[:nl], len_none_all=True)
        if rng.random() < 0.2:
            collapse_root_child(nd, rng)
        nested.append(nd)
    nchar = len(spec["rows"][0])
    evs = []
    gm = rng.random() < 0.5
    for _ in range(case["nops"]):
        if rng.random() < 0.15:
            gm = not gm
        k = rng.randrange(len(nested))
        if attr and (k, gm) in w.downed and rng.random() < 0.45:
            evs.append(w.call("up_pass", k, nested[k], gm))
            w.downed.discard((k, gm))                  # an up pass is documented to follow a down pass
        else:
            wt = [] if rng.random() < 0.5 else [rng.randint(0, 3) for _ in range(nchar)]
            evs.append(w.call("down_pass", k, nested[k], gm, wt, rng.random() < 0.6))
            for kk in list(w.downed):                  # node lists of the other gap treatment are overwritten
                if kk[0] == k and kk[1] != gm:
                    w.downed.discard(kk)
    return evs


def run_case(case):
    k = case["kind"]
    if k == "table":
        return run_table(case)
    if k == "path":
        return run_path(case)
    if k == "random":
        return run_random(case)
    if k == "random_table":
        return run_random_table(case)
    if k == "ppath":
        return run_ppath(case)
    if k == "passes":
        return run_passes(case)
    raise core.MachineryError("unknown case kind %r" % (k,))


# ------------------------------------------------------------------ reading TLC's dumps
_RE_P = re.compile(r"/\\ p = (<<[^\n]*>>)")
_RE_NC = re.compile(r"/\\ nc = (\d+)")
_RE_MAT = re.compile(r"/\\ mat = (.*?)(?=\n/\\ |\Z)", re.S)


def read_table_dump(path):
    """(parent array, nc, rows) of every COMPLETE input state of SpecT; streaming, only p / nc / mat are parsed
    (the dump of the thorough tier is large)"""
    def finish(chunk):
        if not chunk:
            return None
        txt = "".join(chunk)
        mp = _RE_P.search(txt)
        if not mp:
            return None
        par = tlaval.parse_value(mp.group(1))
        mat = tlaval.parse_value(_RE_MAT.search(txt).group(1).strip())
        if len(mat) != build.num_leaves([q - 1 for q in par]):
            return None                      # a partial matrix (intermediate state of the row-by-row construction)
        return (par, int(_RE_NC.search(txt).group(1)), mat)

    chunk = []
    with open(path) as f:
        for line in f:
            if line.startswith("State ") and line.rstrip().endswith(":"):
                r = finish(chunk)
                if r:
                    yield r
                chunk = []
            else:
                chunk.append(line)
    r = finish(chunk)
    if r:
        yield r


def weight_vectors(nc, values):
    vs = [[]]
    def rec(v):
        if len(v) == nc:
            vs.append(list(v))
            return
        for x in values:
            rec(v + [x])
    rec([])
    return vs


def table_cases(ctx, cfg):
    """every complete input of the dump with at most 4 leaves; of the 5-leaf inputs (thorough tier) a seeded
    sample of 1 in 5 is replayed on the real code (all of them are checked by TLC at model level)"""
    dump = os.path.join(ctx.work, "fitch_t.dump")
    ctx.model("MC_Fitch", cfg, extra=("-dump", dump), heap="3g", timeout=3000 if ctx.quick else 6 * 3600)
    rng = random.Random(ctx.seed + 16)
    cases = []
    ninputs = nbig = 0
    for k, (par, nc, mat) in enumerate(read_table_dump(dump)):
        ninputs += 1
        if len(mat) > 4:
            nbig += 1
            if rng.randrange(5) != 0:
                continue
        mats = [model_matrix_spec(mat, "standard")]
        if k % (6 if ctx.quick else 2) == 0:
            mats.append(model_matrix_spec(mat, "dna", rng.choice(DNA_PERMS)))
        if k % (4 if ctx.quick else 2) == 1 and any(1 < len(c) < 4 for row in mat for c in row):
            mats.append(model_matrix_spec(mat, "standard_poly"))
        cases.append({"kind": "table", "seed": ctx.seed * 7919 + k, "par": list(par), "mats": mats,
                      "weights": weight_vectors(nc, (0, 1, 2)), "extra": k % 3, "tri": True})
    os.remove(dump)
    return cases, ninputs, nbig


def path_cases(ctx, cfg, deep_fraction):
    """one real history per transition of the dumped SpecS graph: all transitions whose source is at most one
    step from an initial state, and a seeded sample (1 in deep_fraction) of the deeper ones"""
    dot = os.path.join(ctx.work, "fitch_s.dot")
    ctx.model("MC_Fitch", cfg, extra=("-dump", "dot,actionlabels", dot), heap="3g")
    inits, edges, states = tlaval.read_dot(dot)
    os.remove(dot)
    paths, root = tlaval.shortest_paths(inits, edges)
    rng = random.Random(ctx.seed + 1616)
    cases = []
    for k, (u, v, name, args) in enumerate(edges):
        if u not in paths:
            continue
        if len(paths[u]) > 1 and rng.randrange(deep_fraction) != 0:
            continue
        cases.append({"kind": "path", "seed": k, "par": list(states[root[u]]["g"]["par"]),
                      "path": [[n, _plain(a)] for (n, a) in paths[u] + [(name, args)]]})
    return cases, len(edges)


def ppath_cases(ctx, cfg, deep_fraction):
    """one real execution per transition of the dumped SpecP graph (pass functions with one shared map)"""
    dot = os.path.join(ctx.work, "fitch_p.dot")
    ctx.model("MC_Fitch", cfg, extra=("-dump", "dot,actionlabels", dot), heap="3g")
    inits, edges, states = tlaval.read_dot(dot, with_states="all")
    os.remove(dot)
    paths, root = tlaval.shortest_paths(inits, edges)
    succ = {}
    for (u, v, name, args) in edges:
        succ[(u, name, repr(args))] = v
    rng = random.Random(ctx.seed + 1617)
    cases = []
    for k, (u, v, name, args) in enumerate(edges):
        if u not in paths:
            continue
        if len(paths[u]) > 1 and rng.randrange(deep_fraction) != 0:
            continue
        steps, node = [], root[u]
        for (n, a) in paths[u] + [(name, args)]:
            node = succ[(node, n, repr(a))]
            gg = states[node]["g"]                      # the tree the step scored / finalised
            steps.append([n, _plain(a), {"seed": gg["seed"], "kids": _plain(gg["kids"]), "tx": _plain(gg["tx"])}])
        st0 = states[root[u]]
        cases.append({"kind": "ppath", "seed": k, "rows": _plain(st0["mat"]["orig"]), "gm": bool(st0["mat"]["gm"]), "path": steps})
    return cases, len(edges)


def _plain(x):
    if isinstance(x, (frozenset, set)):
        return sorted(_plain(y) for y in x)
    if isinstance(x, (list, tuple)):
        return [_plain(y) for y in x]
    return x


# ------------------------------------------------------------------ the check
def settle_drift(ctx):
    """verdicts whose clause starts with 'drift.' are reference-vs-code differences the property leaves
    free (counted) or inputs the driver must not generate (machinery failure)"""
    keep = []
    for v in ctx.verdicts:
        c = v["clause"]
        if c in ("drift.Precondition", "drift.TooLargeToJudge"):
            raise core.MachineryError("driver produced an input outside the judged domain: %s / %s on %s"
                                      % (c, v.get("class"), core.dumps(v["event"])[:500]))
        if c.startswith("drift."):
            key = c + ":" + str(v.get("class", ""))
            ctx.drift[key] = ctx.drift.get(key, 0) + 1
        else:
            keep.append(v)
    ctx.verdicts[:] = keep


def count_nontrivial(ctx, driven):
    for case, evs in driven:
        for e in evs:
            if e["action"] == "Table":
                rows = e["m"]["rows"]
                if any(len(set(r[j] for r in rows)) > 1 for j in range(len(rows[0]))):
                    for c in e["calls"]:
                        ctx.add_nontrivial(["T", e["g"]["par"], e["g"]["tx"], rows, c["gm"], c["w"], c["api"]])
            elif e["action"] == "Score":
                rows = e["m"]["rows"]
                if any(len(set(r[j] for r in rows)) > 1 for j in range(len(rows[0]))):
                    ctx.add_nontrivial(["S", e["g"]["par"], e["g"]["tx"], rows, e["gm"], e["w"], e["api"],
                                        [c for c, k in zip(e["pre"], e["g"]["kids"]) if not k]])




def count_root_comparisons(driven):
    """Score events that have an earlier Score of the same data in their history with a Reroot / Rotate in
    between (what C16.RootInvariant compares); a syntactic count for the evidence"""
    n = 0
    for case, evs in driven:
        for i, e in enumerate(evs):
            if e["action"] != "Score":
                continue
            for k in range(i - 1, max(-1, i - 13), -1):
                q = evs[k]
                if q["action"] == "Score" and (q["m"], q["w"], q["gm"], q["bylist"]) == (e["m"], e["w"], e["gm"], e["bylist"]):
                    if any(x["action"] == "Move" and x["kind"] in ("Reroot", "Rotate") for x in evs[k + 1:i]):
                        n += 1
                    break
    return n


def run(ctx):
    q = ctx.quick
    # 1. TLC: the theorem table (and its dump = the inputs replayed below)
    cases_t, ninputs, nbig = table_cases(ctx, "MC_Fitch_quick.cfg" if q else "MC_Fitch_thorough.cfg")
    # 2. TLC: the purity state machine; as shipped, TLC must find the two-call counterexample
    ctx.model("MC_Fitch", "AsShipped_Fitch.cfg", expect_violation="PureScore", count=False, heap="2g")
    cases_p, nedges = path_cases(ctx, "MC_Fitch_sm_quick.cfg", 16 if q else 1)
    # 2b. TLC: the pass functions with one shared taxon_state_sets_map; an up pass that narrows tips in place must be found
    ctx.model("MC_Fitch", "AsNarrowed_Fitch.cfg", expect_violation="MapUnchanged", count=False, heap="2g")
    cases_pp, npedges = ppath_cases(ctx, "MC_Fitch_pass_quick.cfg", 16 if q else 1)
    if not q:
        ctx.model("MC_Fitch", "MC_Fitch_sm_thorough.cfg", heap="3g", timeout=6 * 3600)
        ctx.model("MC_Fitch", "MC_Fitch_sm_thorough4.cfg", heap="3g", timeout=6 * 3600)
    # 3. seeded random histories and instances on larger trees
    nrand, ntab = (48, 48) if q else (2500, 2500)
    rnd = []
    for i in range(nrand):
        nl = 5 + (i % 5)
        rnd.append({"kind": "random", "seed": ctx.seed * 1000003 + i, "nleaves": nl, "nops": 7 if nl >= 8 else 9})
    for i in range(ntab):
        rnd.append({"kind": "random_table", "seed": ctx.seed * 1000003 + 500000 + i, "nleaves": 5 + (i % 5),
                    "basal_trifurcation": i % 3 == 2})
    npass = 40 if q else 2000
    for i in range(npass):
        nl = 4 + (i % 6)
        rnd.append({"kind": "passes", "seed": ctx.seed * 1000003 + 700000 + i, "nleaves": nl, "nops": 6 if nl >= 8 else 8})
    ctx.extra["pass_model_transitions"] = npedges
    ctx.extra["pass_model_transitions_replayed"] = len(cases_pp)
    driven = ctx.drive(cases_t + cases_p + cases_pp + rnd, run_case, chunksize=64)
    nev = sum(len(evs) for _, evs in driven)
    # one judge JVM per slot of the pool (8 at a time): the batches of the quick tier are sized to fill one round
    ctx.judge("Trace_Fitch", driven, batch=(nev // 8 + 50) if q else 20000, heap="2g", timeout=3000 if q else 6 * 3600)
    settle_drift(ctx)
    count_nontrivial(ctx, driven)
    ctx.extra["root_invariance_comparisons"] = count_root_comparisons(driven)
    ml = 4 if q else 5
    if nbig:
        ctx.notes.append("%d inputs with 5 leaves are checked by TLC at model level; a seeded 1-in-5 sample of them is replayed on the real code" % nbig)
    ctx.rule = ("cases = every complete input with <= 4 leaves of TLC's dump of MC_Fitch/SpecT (%d inputs: every ordered bifurcating shape with 2..%d leaves "
                "x every 1-character matrix over 9 cell kinds, 2-character matrices over {0,1,gap} up to one leaf less; each scored on fresh trees (bifurcating-seed form and, from 3 leaves, the "
                "trifurcating-seed form of the same unrooted tree; 0-2 extra matrix taxa that are not on the tree) for both gap "
                "treatments x every weight vector over {0,1,2}, as Standard matrix and 1 in %d also embedded in Dna) + one real history per "
                "transition of the dumped SpecS graph (%d transitions; those starting more than one step from an initial state: 1 in %d) + %d seeded random histories and %d random instances on trees with "
                "5-9 leaves (re-rooting on edges and at nodes, rotation, pruning, extra matrix taxa, polymorphic and anonymous multistate codes) "
                "+ the transitions of the SpecP graph and seeded random sequences of fitch_down_pass / fitch_up_pass sharing ONE taxon_state_sets_map "
                "over 2-3 trees; distinct_nontrivial = distinct (tree, taxa, matrix, gap treatment, weights, api[, cached leaf sets]) calls whose "
                "matrix has a column with at least two different symbols" % (ninputs, ml, 6 if q else 2, nedges, 16 if q else 1, nrand, ntab))
    ctx.exhaustive = True
    ctx.extra["exhaustive_domain"] = ("ordered bifurcating shapes x 1-character matrices over {0,1,2,{01},{02},{12},{012},gap,?} with 2..%d leaves "
                                      "and 2-character matrices over {0,1,gap} with 2..%d leaves: all %d such inputs of the TLC dump replayed"
                                      % (min(ml, 4), 3 if q else 4, ninputs - nbig))
    ctx.extra["model_inputs"] = ninputs
    ctx.extra["model_inputs_5_leaves_sampled_1_in_5"] = nbig
    ctx.extra["model_transitions"] = nedges
    ctx.extra["model_transitions_replayed"] = len(cases_p)
    ctx.assumptions.append("trees with more than 9 nodes are judged by brute force over the states occurring in the column "
                           "(lemma ThmUsedStates, TLC-checked on the bounded domain); smaller ones over the whole alphabet")
    ctx.assumptions.append("only fully bifurcating trees (seed node with 2 children, or 3 = the unrooted form), integer weights, a matrix row for every taxon on the tree")
    for kind in ("table", "path", "random"):
        for case, evs in driven:
            if case["kind"] == kind and evs:
                ctx.add_sample({"case": case, "event": evs[-1]})
                break


def replay(ctx, rec):
    driven = ctx.drive([rec["case"]], run_case, parallel=False)
    ctx.judge("Trace_Fitch", driven)
    settle_drift(ctx)
    ctx.rule = "replay of one recorded case"
    ctx.add_sample({"case": rec["case"]})
    ctx.nontrivial.update(["replay", "replay2"])
