"""C08 - pruning, retaining and extracting yield exactly the induced subtree.

spec/Restrict.tla defines Restrict(g, S, suppress) / Induced(g, top, K, suppress)
on the graph form; MC_Restrict lets TLC check (a) the property on the definition
for every tree up to the bound x every non-empty taxon subset x both suppress
settings x edge length patterns, (b) that the pruning loop, run one step at a
time in every order, always ends in Restrict (confluence).  TLC's dump of that
domain is replayed here into every real API variant; seeded random drivers add
larger trees.  Every outcome is projected from raw pointers and judged by TLC
(Trace_Restrict).  This file contains no expected values: it builds inputs,
calls the library, projects and logs.
"""
import os
import random
import re

from vlib import core, tlaval, proj, build

ID = "C08"
ROOTED = {1: True, 0: False, -1: None}
EMPTY = {"n": 0, "seed": 0, "kids": [], "par": [], "eh": [], "eid": [], "tx": [], "len": [], "lab": [], "rooted": -1}
ALL_PARTS = ["taxa", "taxonless", "subtree", "leaffilter", "nodefilter", "subextract"]


class World(object):
    """one fresh copy of the case's input tree with its projection"""

    def __init__(self, dendropy, case, strip_keep=None):
        self.ns, self.taxa = build.make_namespace(dendropy, case["nleaves"] + case.get("extra", 0),
                                                  holes=tuple(case.get("holes", ())), labels=case.get("labels") or None)
        self.tree = build.build_tree(dendropy, case["nested"], self.ns, self.taxa, rooted=ROOTED[case["rooted"]])
        hist = case.get("history")
        if hist:
            # a history before the call under test: an earlier label-addressed call that looks at every
            # taxon of the namespace, then some taxa are renamed.  The tree itself is left as built.
            current = [t.label for t in self.ns]
            if hist["touch"] == "tree":
                self.tree.retain_taxa_with_labels(current, suppress_unifurcations=False)     # keeps everything
            elif hist["touch"] == "ns":
                self.ns.get_taxa(labels=current)
                for lab in current:
                    self.ns.get_taxon(lab)
            for i, lab in hist["relabel"]:
                self.taxa[i].label = lab
        self.codes = proj.TaxonCodes(self.ns)
        if strip_keep is not None:
            # taxon-less leaves: every leaf whose taxon is not kept loses its taxon
            tmp = {}
            proj.tree_graph(self.tree, codes=self.codes, node_ids=tmp)
            for nd in tmp["__order__"]:
                if not nd._child_nodes and nd.taxon is not None and nd.taxon not in strip_keep(self):
                    nd.taxon = None
        self.ids = {}
        self.g = proj.tree_graph(self.tree, codes=self.codes, node_ids=self.ids)
        self.order = self.ids.pop("__order__")
        self.node = dict((self.ids[id(nd)], nd) for nd in self.order)

    def nid(self, nd):
        return self.ids.get(id(nd), 0)


def label_all(nested):
    """unique label on every node (preorder)"""
    cnt = [0]

    def rec(nd):
        cnt[0] += 1
        nd[0] = "n%d" % cnt[0]
        for c in nd[3]:
            rec(c)
    rec(nested)
    return nested


def _out(api, ub, raised, h=None, extract=False, src=None, after=None, hasrm=False, removed=None):
    return {"api": api, "ub": bool(ub), "raised": raised, "h": h if h is not None else EMPTY, "extract": bool(extract),
            "src": src or [], "after": after if after is not None else {"n": 0}, "hasrm": bool(hasrm), "removed": removed or []}


def run_inplace(mk, api, ub, call, hasrm=False):
    w = mk()
    ret = None
    try:
        ret = call(w)
        raised = ""
    except Exception as ex:
        raised = type(ex).__name__
    h = proj.tree_graph(w.tree, codes=w.codes)
    removed = []
    if hasrm and not raised:
        removed = [w.nid(nd) for nd in list(ret)] if ret is not None else [-1]
    return w, _out(api, ub, raised, h=h, hasrm=hasrm, removed=removed)


def run_extract(mk, api, call, result_is_node=False):
    w = mk()
    res = None
    try:
        res = call(w)
        raised = ""
    except Exception as ex:
        raised = type(ex).__name__
    after = proj.tree_graph(w.tree, codes=w.codes)
    if raised or res is None:
        return w, _out(api, False, raised or "ReturnedNone", extract=True, after=after)
    hids = {}
    h = proj.tree_graph(res, codes=w.codes, node_ids=hids)
    if result_is_node:
        h["rooted"] = w.g["rooted"]       # a bare Node carries no rooting flag
    src = [w.nid(getattr(nd, "extraction_source", None)) for nd in hids["__order__"]]
    return w, _out(api, False, raised, h=h, extract=True, src=src, after=after)


def _event(action, g, sup, outs, top=None, S=(), P=(), lf=False, inf=False, x=0):
    return {"action": action, "g": g, "top": g["seed"] if top is None else top, "S": sorted(S), "P": sorted(P),
            "lf": bool(lf), "inf": bool(inf), "x": x, "sup": bool(sup), "outs": outs}


def run_case(case):
    import dendropy
    rng = random.Random(case["seed"])
    sup = bool(case["sup"])
    keep_idx = list(case["keep"])
    parts = case.get("parts", ALL_PARTS)
    rooted = case["rooted"] == 1
    # suppress_unifurcations=True is also the default: sometimes rely on the default
    kw_sup = (lambda: {} if (sup and rng.random() < 0.3) else {"suppress_unifurcations": sup})
    mk = lambda: World(dendropy, case)
    w0 = mk()
    g = w0.g
    evs = []

    def keep_of(w):
        return [w.taxa[i] for i in keep_idx]

    def drop_of(w, with_extra=True):
        ks = set(keep_idx)
        n = case["nleaves"] + (case.get("extra", 0) if with_extra else 0)
        return [w.taxa[i] for i in range(n) if i not in ks]

    def same_input(w):
        if w.g != g:
            raise core.MachineryError("fresh copies of one case project differently")

    # update_bipartitions=True is driven on every tree; on trees that are not rooted the judge compares
    # modulo the documented collapse of the basal bifurcation (Trace_Restrict.BasalOk)
    ubs = [False, True]
    if "taxa" in parts:
        outs = []
        S = [w0.codes.code(t) for t in keep_of(w0)]
        for ub in ubs:
            kwu = (lambda: dict(kw_sup(), update_bipartitions=True)) if ub else kw_sup
            variants = [
                ("prune_taxa", lambda w: w.tree.prune_taxa(drop_of(w), **kwu()), False),
                ("prune_taxa_with_labels", lambda w: w.tree.prune_taxa_with_labels([t.label for t in drop_of(w)], **kwu()), False),
                ("retain_taxa", lambda w: w.tree.retain_taxa(keep_of(w) if case["seed"] % 2 else set(keep_of(w)), **kwu()), False),
                ("retain_taxa_with_labels", lambda w: w.tree.retain_taxa_with_labels([t.label for t in keep_of(w)], **kwu()), False),
                ("filter_leaf_nodes", lambda w: (lambda ks: w.tree.filter_leaf_nodes(lambda nd: nd.taxon in ks, **kwu()))(set(keep_of(w))), True),
            ]
            for api, call, hasrm in variants:
                w, o = run_inplace(mk, api, ub, call, hasrm=hasrm)
                same_input(w)
                outs.append(o)
        ext = [
            ("extract_tree", lambda w: (lambda ks: w.tree.extract_tree(node_filter_fn=lambda nd: nd.taxon in ks, **kw_sup()))(set(keep_of(w)))),
            ("extract_tree_with_taxa", lambda w: w.tree.extract_tree_with_taxa(keep_of(w), **kw_sup())),
            ("extract_tree_with_taxa_labels", lambda w: w.tree.extract_tree_with_taxa_labels([t.label for t in keep_of(w)], **kw_sup())),
            ("extract_tree_without_taxa", lambda w: w.tree.extract_tree_without_taxa(drop_of(w), **kw_sup())),
            ("extract_tree_without_taxa_labels", lambda w: w.tree.extract_tree_without_taxa_labels([t.label for t in drop_of(w)], **kw_sup())),
        ]
        for api, call in ext:
            w, o = run_extract(mk, api, call)
            same_input(w)
            outs.append(o)
        evs.append(_event("ByTaxa", g, sup, outs, S=S))

    if "taxonless" in parts:
        mk2 = lambda: World(dendropy, case, strip_keep=lambda w: set(w.taxa[i] for i in keep_idx))
        outs = []
        g2 = None
        for ub in ubs:
            kwu = (lambda: dict(kw_sup(), update_bipartitions=True)) if ub else kw_sup
            w, o = run_inplace(mk2, "prune_leaves_without_taxa", ub, lambda w: w.tree.prune_leaves_without_taxa(**kwu()), hasrm=True)
            g2 = w.g
            outs.append(o)
        evs.append(_event("Taxonless", g2, sup, outs))

    if "subtree" in parts:
        cands = [nd for nd in w0.order if nd._parent_node is not None and len(nd._parent_node._child_nodes) >= 2]
        if case.get("max_subtrees"):
            cands = rng.sample(cands, min(len(cands), case["max_subtrees"]))
        for nd0 in cands:
            x = w0.nid(nd0)
            outs = []
            for ub in ubs:
                kwu = (lambda: dict(kw_sup(), update_bipartitions=True)) if ub else kw_sup
                w, o = run_inplace(mk, "prune_subtree", ub, lambda w: w.tree.prune_subtree(w.node[x], **kwu()))
                same_input(w)
                outs.append(o)
            evs.append(_event("BySubtree", g, sup, outs, x=x))

    kept_leaves = [nd for nd in w0.order if not nd._child_nodes and nd.taxon is not None and nd.taxon in set(keep_of(w0))]
    internals = [nd for nd in w0.order if nd._child_nodes]

    if "leaffilter" in parts:
        # predicate given as a table over all nodes: the kept leaves plus some internal nodes
        P = set(w0.nid(nd) for nd in kept_leaves) | set(w0.nid(nd) for nd in internals if rng.random() < case.get("p_int", 0.3))
        outs = []
        for ub in ubs:
            kwu = (lambda: dict(kw_sup(), update_bipartitions=True)) if ub else kw_sup
            w, o = run_inplace(mk, "filter_leaf_nodes[table]", ub,
                               lambda w: w.tree.filter_leaf_nodes(lambda nd: w.nid(nd) in P, **kwu()), hasrm=True)
            same_input(w)
            outs.append(o)
        evs.append(_event("ByLeafFilter", g, sup, outs, P=P))

    def anc_or_self(nd):
        out = []
        while nd is not None:
            out.append(nd)
            nd = nd._parent_node
        return out

    if "nodefilter" in parts:
        combos = [(True, False), (True, True), (False, True), (False, False)]
        if case.get("one_combo", False):
            combos = [combos[case["seed"] % 4]]
        for lf, inf in combos:
            # inclusion table: the kept leaves, the whole path above one of them, and most other internal nodes
            anchor = kept_leaves[rng.randrange(len(kept_leaves))]
            P = set(w0.nid(nd) for nd in kept_leaves) | set(w0.nid(nd) for nd in anc_or_self(anchor)) \
                | set(w0.nid(nd) for nd in internals if rng.random() < 0.7)
            api = "extract_tree[leaf=%d,internal=%d]" % (lf, inf)
            w, o = run_extract(mk, api, lambda w: w.tree.extract_tree(
                node_filter_fn=lambda nd: w.nid(nd) in P, is_apply_filter_to_leaf_nodes=lf,
                is_apply_filter_to_internal_nodes=inf, **kw_sup()))
            same_input(w)
            evs.append(_event("ByNodeFilter", g, sup, [o], P=P, lf=lf, inf=inf))

    if "subextract" in parts:
        tops = []
        for nd in kept_leaves:
            for a in anc_or_self(nd)[1:]:
                if a._parent_node is not None and a not in tops:
                    tops.append(a)
        if case.get("max_tops"):
            tops = rng.sample(tops, min(len(tops), case["max_tops"]))
        P = set(w0.nid(nd) for nd in kept_leaves)
        for top0 in tops:
            tid = w0.nid(top0)
            w, o = run_extract(mk, "Node.extract_subtree", lambda w: (lambda ks: w.node[tid].extract_subtree(
                node_filter_fn=lambda nd: nd.taxon in ks, **kw_sup()))(set(keep_of(w))), result_is_node=True)
            same_input(w)
            evs.append(_event("ByNodeFilter", g, sup, [o], top=tid, P=P, lf=True, inf=False))
    return evs


# ---------------------------------------------------------------------------------------------- cases
def relabel_history(ntaxa, keep, nleaves, mode, touch):
    """A history for the label-addressed variants: touch every taxon through a label lookup, then rename
    some taxa - to fresh labels (0), to each other's labels across the cut (1), to case variants (2), one
    taxon taking over the old label of another that gets a fresh one (3).  Labels stay pairwise different
    (also ignoring case), so naming the current labels names the same leaves as naming the Taxon objects."""
    ks = sorted(keep)
    ds = [i for i in range(nleaves) if i not in set(keep)]
    a = ks[0]
    b = ds[0] if ds else (ks[1] if len(ks) > 1 else None)
    old = lambda i: "T%d" % (i + 1)
    if mode == 0 or b is None:
        plan = [[a, "R%d" % (a + 1)]] + ([[b, "Fresh%d" % (b + 1)]] if b is not None else [])
    elif mode == 1:
        plan = [[a, "swap-tmp"], [b, old(a)], [a, old(b)]]
    elif mode == 2:
        plan = [[i, old(i).swapcase()] for i in range(ntaxa)]
    else:
        plan = [[b, "R%d" % (b + 1)], [a, old(b).swapcase()]]
    return {"touch": touch, "relabel": plan}


def shared_labels(ntaxa, keep, nleaves, variant):
    """Taxon labels in which two taxa of the tree carry the same label (variant 0) or labels that differ
    only in case (variant 1; the namespace is case-insensitive by default).  The pair is taken from the
    same side (both kept or both dropped), so naming taxa by label names the same leaves as naming the
    Taxon objects.  None if no such pair exists."""
    ks = sorted(keep)
    ds = [i for i in range(nleaves) if i not in set(keep)]
    pair = ks[:2] if len(ks) >= 2 else (ds[:2] if len(ds) >= 2 else None)
    if pair is None:
        return None
    labels = ["T%d" % (i + 1) for i in range(ntaxa)]
    labels[pair[0]], labels[pair[1]] = (("x", "x"), ("Dup", "dUP"))[variant]
    return labels


def read_dump(path):
    """tlaval.read_dump, after writing TLC's interval sets a..b out as {a, ..., b}"""
    with open(path) as f:
        txt = f.read()
    txt = re.sub(r"(\d+)\.\.(\d+)", lambda m: "{" + ", ".join(str(i) for i in range(int(m.group(1)), int(m.group(2)) + 1)) + "}", txt)
    tmp = path + ".expanded"
    with open(tmp, "w") as f:
        f.write(txt)
    try:
        return tlaval.read_dump(tmp)
    finally:
        os.remove(tmp)


def model_cases(ctx, states):
    cases = []
    k = 0
    # TLC's dump order depends on worker scheduling: fix an order so that a seed reproduces a run
    states = [st for st in states if st["S"]]          # drop the bare tree shapes (first level of the enumeration)
    states.sort(key=lambda st: (len(st["g"]["par"]), st["g"]["par"], st["g"]["len"], sorted(st["S"]), st["sup"]))
    for st in states:
        gm = st["g"]
        par = gm["par"]
        nl = build.num_leaves([p - 1 for p in par])
        lens = [None if v < 0 else (v // 4 if v % 4 == 0 else v / 4.0) for v in gm["len"]]
        nested = build.nested_from_parents(par, list(range(nl)), lens=lens, labels=["n%d" % (i + 1) for i in range(len(par))])
        all_taxa = len(st["S"]) == nl
        parts = ["taxa", "taxonless", "leaffilter", "nodefilter", "subextract"] + (["subtree"] if all_taxa else [])
        cases.append({"kind": "model", "seed": ctx.seed * 7919 + k, "nleaves": nl, "nested": nested,
                      "keep": sorted(t - 1 for t in st["S"]), "sup": bool(st["sup"]),
                      # j = index of (tree, S); both suppress settings share rooting and namespace layout.
                      "rooted": (1, 1, 0, 1, 1, -1, 1)[(k // 2) % 7],
                      "holes": [0] if (k // 2) % 5 == 1 else [], "extra": 1 if (k // 2) % 5 == 2 else 0,
                      "parts": parts, "one_combo": True})
        if (k // 2) % 3 == 0:
            c = cases[-1]
            c["labels"] = shared_labels(nl + c["extra"], c["keep"], nl, (k // 6) % 2) or []
        elif (k // 2) % 3 == 1:
            c = cases[-1]
            c["history"] = relabel_history(nl + c["extra"], c["keep"], nl, (k // 6) % 4, ("ns", "tree", "none")[(k // 24) % 3])
        k += 1
    return cases


def random_cases(ctx, n):
    rng = random.Random(ctx.seed + 8)
    cases = []
    for k in range(n):
        nl = rng.randint(6, 14)
        shape = build.random_parents(rng, nl, p_poly=0.3, p_unif=0.2)
        idx = list(range(nl))
        rng.shuffle(idx)
        nested = build.assign(shape, rng, idx, lengths=(None, None, 0, 0.0, 1, 2.0, 3, 0.25, 1.5),
                              len_none_all=(rng.random() < 0.08))
        if rng.random() < 0.2:
            nested = [None, None, rng.choice((None, 0, 2)), [nested]]       # unifurcating seed
        label_all(nested)
        r = rng.random()
        if r < 0.15:
            keep = [rng.randrange(nl)]
        elif r < 0.3:
            keep = sorted(set(range(nl)) - {rng.randrange(nl)})
        elif r < 0.4:
            keep = list(range(nl))
        else:
            keep = sorted(rng.sample(range(nl), rng.randint(2, nl - 1)))
        holes = sorted(rng.sample(range(nl), rng.randint(0, 2))) if rng.random() < 0.4 else []
        cases.append({"kind": "random", "seed": ctx.seed * 7919 + 500000 + k, "nleaves": nl, "nested": nested, "keep": keep,
                      "sup": rng.random() < 0.6, "rooted": rng.choice((1, 1, 0, -1)), "holes": holes,
                      "extra": rng.choice((0, 0, 1, 2)), "parts": ALL_PARTS, "max_subtrees": 4, "max_tops": 4})
        if rng.random() < 0.4:
            c = cases[-1]
            c["labels"] = shared_labels(nl + c["extra"], keep, nl, rng.randrange(2)) or []
        elif rng.random() < 0.6:
            c = cases[-1]
            c["history"] = relabel_history(nl + c["extra"], keep, nl, rng.randrange(4), rng.choice(("ns", "tree", "tree", "none")))
    return cases


def run(ctx):
    t = "quick" if ctx.quick else "thorough"
    dump = os.path.join(ctx.work, "restrict.dump")
    ctx.model("MC_Restrict", "MC_Restrict_def_%s.cfg" % t, extra=("-dump", dump))
    states = read_dump(dump)
    os.remove(dump)
    ctx.model("MC_Restrict", "MC_Restrict_defrest_%s.cfg" % t)      # the definition on the other edge length patterns
    ctx.model("MC_Restrict", "MC_Restrict_loop_%s.cfg" % t)          # confluence of the step-wise pruning loop
    ctx.model("MC_Restrict", "AsShipped_Restrict.cfg", expect_violation="VariantsAgree", count=False)
    cases = model_cases(ctx, states)
    del states
    nmodel = len(cases)
    nrand = 120 if ctx.quick else 2000
    cases += random_cases(ctx, nrand)
    # Driven and judged in chunks: the thorough tier has ~4*10^5 events, which must not all sit in memory.
    # Only the events of traces with an unlisted failing clause are kept (they go into the replay file).
    open_m = [f.get("match", {}) for f in core.load_findings() if f.get("property") == ID and f.get("status") == "open"]
    ncalls = 0
    chunk = 4000
    for i in range(0, len(cases), chunk):
        driven = ctx.drive(cases[i:i + chunk], run_case, chunksize=16)
        new = ctx.judge("Trace_Restrict", driven, batch=1500 if ctx.quick else 2500)
        for case, evs in driven:
            for e in evs:
                ncalls += len(e["outs"])
                o = e["outs"][0]
                if not o["raised"] and o["h"]["n"] < e["g"]["n"]:
                    ctx.add_nontrivial([e["action"], e["g"]["par"], e["g"]["len"], e["S"], e["P"], e["top"], e["x"], e["lf"], e["inf"], e["sup"]])
        if i == 0:
            ctx.add_sample({"case": driven[5][0], "event": driven[5][1][0]})
        if i + chunk >= len(cases):
            ctx.add_sample({"case": driven[-1][0], "event": driven[-1][1][0]})
        keep = set()
        for v in new:
            v.pop("event", None)
            if not any(all(str(v.get(k)) == str(m[k]) for k in m) for m in open_m):
                keep.add(v["tid"])
        ctx.events = [e for e in ctx.events if e["tid"] in keep]
        del driven, new
    ctx.extra["api_calls_judged"] = ncalls
    bound = "<= 7 nodes / <= 4 leaves" if ctx.quick else "<= 9 nodes / <= 5 leaves"
    ctx.rule = ("every (tree, non-empty taxon subset, suppress) state of TLC's dump of MC_Restrict (%d inputs, trees %s, exhaustive) "
                "x every API variant (prune/retain by taxa and labels, filter_leaf_nodes, extract_tree and its four wrappers, "
                "update_bipartitions on/off for rooted trees, prune_leaves_without_taxa, prune_subtree at every admissible node, "
                "node-table filters, Node.extract_subtree at every inner node) + %d seeded random cases with 6-14 leaves; "
                "distinct_nontrivial = distinct (action, tree, lengths, survivor specification, suppress) in which at least one node disappears"
                % (nmodel, bound, nrand))
    ctx.exhaustive = True
    ctx.extra["exhaustive_domain"] = ("ordered trees %s (polytomies, unifurcations, unifurcating seeds) with the mixed None/0/positive edge length "
                                      "pattern x every non-empty subset of their taxa x suppress on/off (%d inputs); the model runs additionally "
                                      "cover %s length patterns" % (bound, nmodel, "2" if ctx.quick else "4"))
    ctx.assumptions.append("domain of the property as driven: taxa on leaves only, each taxon on at most one leaf, labels given in their exact case and naming the same leaves as the Taxon objects (taxa sharing a label, or labels differing only in case, lie on the same side of the cut; label-addressed variants are also run after a history of label lookups and renamings of taxa, the renamed labels staying pairwise distinct ignoring case), "
                           "prune_subtree only at nodes whose parent keeps another child, update_bipartitions=True on trees that are not rooted "
                           "is compared modulo the documented collapse of the unrooted basal bifurcation only (free: order of the seed's children, "
                           "rooting flag becoming unrooted, the merged length when one of the two is None, no distance from the top), recursive=True")


def replay(ctx, rec):
    driven = ctx.drive([rec["case"]], run_case, parallel=False)
    ctx.judge("Trace_Restrict", driven)
    ctx.rule = "replay of one recorded case"
    ctx.add_sample({"case": rec["case"]})
