"""C12 - copies are equal to their source and independent of it at the documented depth.

spec/CopySem.tla     object-graph heap, the documented depth table, the clauses (pure operators),
                     the reference copy rule and reference mutations
spec/MC_CopySem      bounded model: every small object graph x copy route x history of mutations of
                     source / copy and copies of the copy (TLC); Broken_CopySem_*.cfg: the same model
                     with one realistic copy defect switched on - TLC must find the violation
spec/Trace_CopySem   TLC judges every real execution: heap after each call + value views
Binding:
 M2  every transition of the dumped model graph (copy route x mutation history) is replayed on real
     dendropy objects of the transition's class: trees (<= 5 leaves, with and without annotations,
     comments, encoded bipartitions, extra attributes), tree lists, matrices, namespaces;
 M3  those executions plus seeded random histories on larger objects are logged and judged by TLC.
The driver holds no oracle: it builds objects, calls the public API, projects (vlib/x_c12.py), logs.
"""
import copy
import os
import random

from vlib import core, tlaval, build
from vlib import x_c12 as X

ID = "C12"

ROUTES = {
    "Tree": ["deepcopy", "clone2", "clone1", "tns_copy", "ctor", "copy", "clone0", "ctor_newns", "extract", "extract_ref"],
    "TreeList": ["deepcopy", "clone2", "clone1", "tns_copy", "ctor", "copy", "clone0", "ctor_newns"],
    "Matrix": ["deepcopy", "clone2", "clone1", "tns_copy", "ctor", "copy", "clone0", "ctor_newns"],
    "Namespace": ["deepcopy", "clone2", "clone1", "tns_copy", "ctor", "copy", "clone0"],
}
MODEL_OPS = ["SetLabel", "SetLength", "SetNodeLabel", "RelabelTaxon", "AddTaxon", "AddAnnotation", "ChangeAnnotation",
             "ChangeBoundAttr", "Encode", "Structural", "SetCell", "AddComment", "AnnotateNamespace"]
CONFIGS = ["default", "ns_locked", "ns_case", "unrooted", "rooting_none", "weighted", "unlabelled"]
EXTRA_OPS = ["SetExtra", "SetRooting", "AnnotateDeep"]      # random driver only


# --------------------------------------------------------------------------- building objects
def _fresh(rng, prefix="v"):
    return "%s%d" % (prefix, rng.randrange(10 ** 6))


def _decorate_tree(d, tree, v, rng):
    nodes = _nodes(tree)
    if v.get("ann"):
        tree.annotations.add_new("color", "blue")
        tree.annotations.add_bound_attribute("label")
        tree.annotations.add_new("score", 0.5, datatype_hint="xsd:double", real_value_format_specifier=".3f", is_hidden=True)
        if v.get("rich"):
            tree.annotations.add_bound_attribute("weight")
            a = tree.annotations.add_new("nested", "outer")
            a.annotations.add_new("inner", 7)
            # annotations with non-default constructor options and an attribute set after creation
            tree.annotations.add_new("support", 0.9, datatype_hint="xsd:double", real_value_format_specifier=".2f")
            h = tree.annotations.add_new("citation", "http://example.org/x", name_prefix="dc",
                                         namespace="http://purl.org/dc/elements/1.1/", annotate_as_reference=True, is_hidden=True)
            h.rank = 3
            h.tags = ["t1"]
            for i, nd in enumerate(nodes):
                if i % 2 == 0:
                    nd.annotations.add_new("support", i)
                if i % 3 == 0:
                    nd.annotations.add_bound_attribute("label")
                if i % 3 == 1:
                    nd.edge.annotations.add_bound_attribute("length")
                    nd.edge.annotations.add_new("eprop", [1, i])
    if v.get("comments"):
        tree.comments.append("tree comment")
        if v.get("rich"):
            for i, nd in enumerate(nodes):
                if i % 2 == 1:
                    nd.comments.append("n%d" % i)
                    nd.edge.comments.append("e%d" % i)
    if v.get("extra"):
        tree.meta = {"k": [1, 2], "name": "m"}
        for i, nd in enumerate(nodes):
            if i % 2 == 0:
                nd.extra = [i, "x"]
            nd.mark = i
        nodes[0].edge.tag = ("t", 1)
    if v.get("bound_other"):
        # bound-attribute annotations whose owner is another object of the same tree
        tree.annotations.add_bound_attribute("label", annotation_name="rootlabel", owner_instance=nodes[0])
        for i, nd in enumerate(nodes):
            if i % 2 == 1:
                nd.annotations.add_bound_attribute("length", annotation_name="brlen", owner_instance=nd.edge)
    if v.get("encode"):
        tree.encode_bipartitions()
        if v.get("lookup", True):
            # client code has used the lazily built look-up tables of the encoding
            tree.bipartition_edge_map
            tree.split_bitmask_edge_map


def _nodes(tree):
    """nodes in preorder through raw child lists"""
    out, st = [], [tree._seed_node] if getattr(tree, "_seed_node", None) is not None else []
    while st:
        nd = st.pop()
        out.append(nd)
        st.extend(reversed(nd._child_nodes))
    return out


def _mk_ns(d, v, n):
    ns, taxa = build.make_namespace(d, n + v.get("ns_extra", 0), holes=tuple(v.get("ns_holes", ())), order=v.get("ns_order"))
    if v.get("ns_ann"):
        ns.label = "NSL"
        ns.annotations.add_new("source", "field")
        ns.annotations.add_new("version", 1.25, real_value_format_specifier=".1f", is_hidden=True).checked = True
        ns.annotations.add_bound_attribute("label")
        ns.comments.append("ns comment")
        taxa[0].annotations.add_new("habitat", "forest")
        taxa[-1].annotations.add_bound_attribute("label")
        taxa[0].comments.append("taxon comment")
    return ns, taxa


def _mk_tree(d, v, ns, taxa, rng, nested=None):
    nested = copy.deepcopy(nested if nested is not None else v["nested"])
    t = build.build_tree(d, nested, ns, taxa, rooted=v.get("rooted"))
    if v.get("itaxa"):
        # taxa on internal nodes and on the seed node (as read with suppress_internal_node_taxa=False): members of
        # the same namespace, shared or copied by exactly the same rule as leaf taxa (seeded change C12-v1)
        k = 0
        stack = [t._seed_node]
        while stack and k < 2:
            nd = stack.pop()
            if nd._child_nodes and nd.taxon is None:
                nd.taxon = ns.new_taxon("int%d_%d" % (k, len(ns)))
                k += 1
            stack.extend(reversed(nd._child_nodes))
    t.label = v.get("label", "T")
    if v.get("weight") is not None:
        t.weight = v["weight"]
    _decorate_tree(d, t, v, rng)
    return t


def _cross_reference(d, tl, v):
    """cross-references between the members of one tree list (variant key "xref")"""
    x = v.get("xref")
    if not x:
        return
    trees = list(tl._trees)
    if x in ("extract-first", "extract-last"):
        # a tree made with extract_tree() (its nodes refer back to the nodes they were extracted from) sits in
        # the same list as its original, listed before / after it
        o = trees[0]
        e = o.extract_tree(suppress_unifurcations=False)
        e.label = "extracted"
        if x == "extract-first":
            tl.insert(0, e)
        else:
            tl.append(e)
    elif x == "annotations" and len(trees) >= 2:
        # a tree annotated with a reference to another tree's node, and two trees sharing one annotation target
        a, b = trees[0], trees[1]
        a.annotations.add_bound_attribute("label", annotation_name="other_root", owner_instance=b._seed_node)
        a.annotations.add_bound_attribute("label", annotation_name="list_label", owner_instance=tl)
        b.annotations.add_bound_attribute("label", annotation_name="list_label", owner_instance=tl)
        b._seed_node.annotations.add_new("sister_tree_leaf", _nodes(a)[-1])


def build_object(d, cls, v, rng):
    if cls == "Tree":
        ns, taxa = _mk_ns(d, v, v["nleaves"])
        return _mk_tree(d, v, ns, taxa, rng)
    if cls == "TreeList":
        ns, taxa = _mk_ns(d, v, v["nleaves"])
        tl = d.TreeList(taxon_namespace=ns, label="TL")
        for k, nested in enumerate(v["trees"]):
            tv = dict(v, label="t%d" % k)
            tl.append(_mk_tree(d, tv, ns, taxa, rng, nested=nested))
        if v.get("ann"):
            tl.annotations.add_new("run", 3)
            tl.annotations.add_bound_attribute("label")
            tl.annotations.add_new("ess", 101.5, real_value_format_specifier=".1f").origin = "mcmc"
        _cross_reference(d, tl, v)
        if v.get("comments"):
            tl.comments.append("list comment")
        if v.get("extra"):
            tl.meta = ["a", 1]
        return tl
    if cls == "Matrix":
        ns, taxa = _mk_ns(d, v, v["ntax"])
        if v["mtype"] == "dna":
            m = d.DnaCharacterMatrix(taxon_namespace=ns, label="M")
            for t, s in zip(taxa[:v["ntax"]], v["rows"]):
                m[t] = m.coerce_values(s)
        elif v["mtype"] == "standard":
            m = d.StandardCharacterMatrix(taxon_namespace=ns, label="M", default_state_alphabet=d.new_standard_state_alphabet("01"))
            for t, s in zip(taxa[:v["ntax"]], v["rows"]):
                m[t] = m.coerce_values(s)
        else:
            m = d.ContinuousCharacterMatrix(taxon_namespace=ns, label="M")
            for t, s in zip(taxa[:v["ntax"]], v["rows"]):
                m[t] = list(s)
        if v.get("ann"):
            m.annotations.add_new("gene", "cox1")
            m.annotations.add_bound_attribute("label")
            m.annotations.add_new("gc", 0.412, datatype_hint="xsd:float", real_value_format_specifier=".2f", annotate_as_reference=False)
            if v.get("rich"):
                m[taxa[0]].annotations.add_new("voucher", "X1")
        if v.get("comments"):
            m.comments.append("matrix comment")
        if v.get("subsets"):
            m.new_character_subset("first", [0, 1])
        if v.get("ctypes"):
            # a character type shared by the matrix and one cell, with cell-level annotations targeted at it
            from dendropy.datamodel.charmatrixmodel import CharacterType
            ct = CharacterType(label="col0", state_alphabet=getattr(m, "default_state_alphabet", None))
            m.character_types.append(ct)
            # (first, in map order) by the cells of a sequence without cell-level annotations ...
            seq0 = m[taxa[0]]
            for j in range(len(seq0)):
                seq0.set_character_type_at(j, ct)
            # ... and by one cell of a sequence that has a cell-level annotation
            seq = m[taxa[1]]
            seq.set_character_type_at(0, ct)
            seq.annotations_at(0).add_new("cellnote", 5)
        if v.get("extra"):
            m.meta = {"k": [1]}
        return m
    if cls == "Namespace":
        ns, taxa = _mk_ns(d, v, v["ntax"])
        if v.get("bitmask"):
            ns.taxon_bitmask(taxa[0])
        if v.get("extra"):
            ns.meta = ["q"]
            taxa[0].rank = [1]
        return ns
    raise core.MachineryError("unknown class " + cls)


def apply_conf(d, obj, cls, conf):
    """object configuration (spec/CopySem.tla, Configs): settings that are part of the instance state of the
    copied object and must not change the depth of any copy route"""
    ns = obj if cls == "Namespace" else obj.taxon_namespace
    trees = [obj] if cls == "Tree" else list(obj._trees) if cls == "TreeList" else []
    if conf == "ns_locked":
        ns.is_mutable = False
    elif conf == "ns_case":
        ns.is_case_sensitive = True
    elif conf == "unrooted":
        for t in trees:
            t.is_rooted = False
    elif conf == "rooting_none":
        for t in trees:
            t.is_rooted = None
    elif conf == "weighted":
        for t in trees:
            t.weight = 2.5
    elif conf == "unlabelled":
        obj.label = None
        for t in trees:
            t.label = None
    elif conf != "default":
        raise core.MachineryError("unknown configuration " + conf)


# --------------------------------------------------------------------------- copy routes
def do_copy(d, x, cls, route, arg):
    if route == "deepcopy":
        return copy.deepcopy(x)
    if route == "clone2":
        return x.clone(2)
    if route == "clone1":
        return x.clone(1)
    if route == "clone0":
        return x.clone(0)
    if route == "tns_copy":
        return x.taxon_namespace_scoped_copy()
    if route == "copy":
        return copy.copy(x)
    if route == "ctor":
        return type(x)(x)
    if route == "ctor_newns":
        other = d.TaxonNamespace()
        if arg % 2 == 1:          # the given namespace already knows some of the labels, in another order
            labs = [t.label for t in x.taxon_namespace]
            other.new_taxon("zz_unrelated")
            for lab in reversed(labs[: max(1, len(labs) // 2)]):
                other.new_taxon(lab)
        return type(x)(x, taxon_namespace=other)
    if route == "extract":
        return x.extract_tree(extraction_source_reference_attr_name=None, suppress_unifurcations=False)
    if route == "extract_ref":
        return x.extract_tree(suppress_unifurcations=False)
    raise core.MachineryError("unknown route " + route)


# --------------------------------------------------------------------------- mutations
def _annotables(root, cls):
    if cls == "Tree":
        out = [root]
        for nd in _nodes(root):
            out.append(nd)
            out.append(nd._edge)
        return out
    if cls == "TreeList":
        out = [root]
        for t in root._trees:
            out.extend(_annotables(t, "Tree"))
        return out
    if cls == "Matrix":
        return [root] + list(root._taxon_sequence_map.values())
    return [root] + list(root._taxa)


def _anns(o):
    s = o.__dict__.get("_annotations")
    return list(s) if s is not None else []


def _ns(root, cls):
    return root if cls == "Namespace" else root.taxon_namespace


def _trees(root, cls):
    return [root] if cls == "Tree" else list(root._trees) if cls == "TreeList" else []


def _bump(v):
    return 1 if v is None else v + 1


def apply_op(d, root, cls, op, arg, rng):
    """one mutation through `root`; returns a short description, or None if the operation has no target here"""
    ns = _ns(root, cls)
    if op == "SetLabel":
        root.label = _fresh(rng, "L")
        return "label"
    if op == "SetRooting":
        ts = _trees(root, cls)
        if not ts:
            return None
        t = ts[arg % len(ts)]
        t.is_rooted = not bool(t.is_rooted)
        return "is_rooted"
    if op in ("SetLength", "SetNodeLabel", "SetExtra", "Encode", "Structural") and cls in ("Tree", "TreeList"):
        ts = _trees(root, cls)
        if op == "Structural" and cls == "TreeList":
            k = arg % 3
            if k == 0 or not ts:
                taxa = list(ns)
                nested = ["nr", None, None, [["", i, 1, []] for i in range(min(3, len(taxa)))]]
                nt = build.build_tree(d, nested, ns, taxa, rooted=True)
                root.append(nt)
                return "append-tree"
            if k == 1:
                root.pop()
                return "pop-tree"
            root.reverse()
            return "reverse-list"
        if not ts:
            return None
        t = ts[(arg // 7) % len(ts)]
        nodes = _nodes(t)
        nd = nodes[arg % len(nodes)]
        if op == "SetLength":
            nd.edge.length = _bump(nd.edge.length)
            return "edge.length"
        if op == "SetNodeLabel":
            if arg % 2:
                nd.edge.label = _fresh(rng, "e")
                return "edge.label"
            nd.label = _fresh(rng, "n")
            return "node.label"
        if op == "SetExtra":
            if isinstance(nd.__dict__.get("extra"), list) and arg % 2:
                nd.extra.append(rng.randrange(100))
                return "extra.append"
            nd.mark = rng.randrange(1000)
            return "node.mark"
        if op == "Encode":
            if any(x.taxon is None for x in nodes if not x._child_nodes):
                return None         # documented precondition of the encoding: every leaf carries a taxon
            if t.bipartition_encoding is None or arg % 2 == 0:
                t.encode_bipartitions()
                if arg % 3:
                    t.bipartition_edge_map
                    t.split_bitmask_edge_map
                    return "encode_bipartitions+lookup"
                return "encode_bipartitions"
            t.update_bipartitions()
            return "update_bipartitions"
        # structural edits of a tree
        k = arg % 5
        leaves = [x for x in nodes if not x._child_nodes]
        internal = [x for x in nodes if x._child_nodes and x._parent_node is not None]
        if k == 0:
            nd.new_child(label=_fresh(rng, "c"), edge_length=1)
            return "new_child"
        if k == 1 and len(leaves) >= 3:
            t.prune_subtree(leaves[arg % len(leaves)], update_bipartitions=False, suppress_unifurcations=bool(arg % 2))
            return "prune_subtree"
        if k == 2 and internal:
            t.reroot_at_node(internal[arg % len(internal)], update_bipartitions=False)
            return "reroot_at_node"
        if k == 3 and internal:
            internal[arg % len(internal)].edge.collapse()
            return "collapse"
        seed = t.seed_node
        seed.set_child_nodes(list(reversed(seed.child_nodes())))
        return "reverse-children"
    if op == "RelabelTaxon":
        taxa = list(ns)
        if not taxa:
            return None
        taxa[arg % len(taxa)].label = _fresh(rng, "X")
        return "taxon.label"
    if op == "AddTaxon":
        if not ns.is_mutable:
            return None             # documented: taxa cannot be added to an immutable namespace
        ns.new_taxon(_fresh(rng, "N"))
        return "new_taxon"
    if op == "AnnotateNamespace":
        ns.annotations.add_new(_fresh(rng, "nsa"), rng.randrange(100))
        return "namespace.annotations.add_new"
    if op == "AddAnnotation":
        objs = _annotables(root, cls)
        o = objs[arg % len(objs)] if arg % 4 else root
        if arg % 2 and hasattr(o, "label"):
            o.annotations.add_bound_attribute("label")
            return "add_bound_attribute"
        o.annotations.add_new(_fresh(rng, "a"), rng.randrange(100))
        return "add_new"
    if op == "AnnotateDeep":
        cand = [a for o in _annotables(root, cls) for a in _anns(o)]
        if not cand:
            return None
        cand[arg % len(cand)].annotations.add_new(_fresh(rng, "sub"), "s")
        return "annotation.annotations.add_new"
    if op == "ChangeAnnotation":
        cand = [a for o in _annotables(root, cls) for a in _anns(o) if not a.is_attribute]
        if not cand:
            return None
        a = cand[arg % len(cand)]
        if arg % 3 == 2:
            a.name = _fresh(rng, "nm")
            return "annotation.name"
        a.value = _fresh(rng, "val")
        return "annotation.value"
    if op == "ChangeBoundAttr":
        cand = [(o, a) for o in _annotables(root, cls) for a in _anns(o) if a.is_attribute]
        if not cand:
            return None
        o, a = cand[arg % len(cand)]
        o, attr = a._value          # the object the annotation is bound to (usually the annotated object itself)
        cur = getattr(o, attr)
        if attr in ("length", "weight"):
            setattr(o, attr, _bump(cur))
        else:
            setattr(o, attr, _fresh(rng, "B"))
        return "bound:" + str(attr)
    if op == "AddComment":
        objs = _annotables(root, cls)
        objs = [x for x in objs if isinstance(x.__dict__.get("comments"), list)]
        if not objs:
            return None
        o = objs[arg % len(objs)] if arg % 3 else objs[0]
        o.comments.append(_fresh(rng, "c"))
        return "comments.append"
    if op == "SetExtra":
        if isinstance(root.__dict__.get("meta"), list):
            root.meta.append(rng.randrange(100))
            return "meta.append"
        root.flag = rng.randrange(1000)
        return "flag"
    if cls == "Matrix":
        taxa_with = list(root._taxon_sequence_map.keys())
        if op == "SetCell":
            if not taxa_with:
                return None
            seq = root[taxa_with[arg % len(taxa_with)]]
            if len(seq) == 0:
                return None
            j = (arg // 3) % len(seq)
            other = root[taxa_with[(arg + 1) % len(taxa_with)]]
            cur = seq[j]
            cand = [x for x in list(other) + list(seq) if x is not cur and x != cur]
            seq[j] = cand[0] if cand else (cur + 1 if isinstance(cur, (int, float)) else cur)
            if not cand and not isinstance(cur, (int, float)):
                return None
            return "seq[j]="
        if op == "Structural":
            k = arg % 3
            if (k == 0 or not taxa_with) and not ns.is_mutable:
                k = 2
                if not taxa_with:
                    return None
            if k == 0 or not taxa_with:
                t = ns.new_taxon(_fresh(rng, "S"))
                src_seq = root[taxa_with[0]] if taxa_with else []
                root[t] = list(src_seq)
                return "new-sequence"
            if k == 1 and len(taxa_with) > 1:
                del root[taxa_with[-1]]
                return "del-sequence"
            seq = root[taxa_with[arg % len(taxa_with)]]
            if len(seq) == 0:
                return None
            seq.append(seq[0])
            return "seq.append"
        return None
    if cls == "Namespace" and op == "Structural":
        taxa = list(root)
        if not taxa:
            return None
        root.remove_taxon(taxa[-1 if arg % 2 == 0 else 0])
        return "remove_taxon"
    return None


# --------------------------------------------------------------------------- one case = one chain of events
def run_case(case):
    import dendropy as d
    rng = random.Random(case["seed"])
    cls = case["cls"]
    obj = build_object(d, cls, case["variant"], rng)
    conf = case.get("conf", "default")
    apply_conf(d, obj, cls, conf)
    w = X.World()
    evs = [{"action": "Init", "cls": cls, "conf": conf, "g": w.graph([obj]), "src": w.oid(obj), "vs": X.view_of(obj)}]
    src, cpy = obj, None
    for k, step in enumerate(case["steps"]):
        arg = case.get("arg", 0) + 13 * k if len(step) < 4 else step[3]
        if step[0] in ("Copy", "Recopy"):
            route = step[1]
            frm = src if (step[0] == "Copy" or cpy is None) else cpy
            raised = ""
            try:
                new = do_copy(d, frm, cls, route, arg)
            except Exception as ex:             # the outcome is logged and judged
                raised = type(ex).__name__
            if raised:
                evs.append({"action": "Copy", "cls": cls, "route": route, "from": "cpy" if frm is cpy else "src", "raised": raised,
                            "g": w.graph([frm]), "src": w.oid(frm), "cpy": 0, "vs": X.view_of(frm), "vc": X.view_of(frm)})
                break
            was_cpy = frm is cpy
            src, cpy = frm, new
            evs.append({"action": "Copy", "cls": cls, "route": route, "from": "cpy" if was_cpy else "src", "raised": "",
                        "g": w.graph([src, cpy]), "src": w.oid(src), "cpy": w.oid(cpy),
                        "vs": X.view_of(src), "vc": X.view_of(cpy)})
        else:
            side, op = step[1], step[2]
            if cpy is None:
                continue
            root = src if side == "src" else cpy
            raised, desc = "", ""
            try:
                desc = apply_op(d, root, cls, op, arg, rng)
            except Exception as ex:
                raised = type(ex).__name__
            if desc is None:
                continue
            evs.append({"action": "Mutate", "cls": cls, "side": side, "op": op, "desc": desc, "raised": raised,
                        "g": w.graph([src, cpy]), "vs": X.view_of(src, kinds=False), "vc": X.view_of(cpy, kinds=False)})
    return evs


# --------------------------------------------------------------------------- real variants per model class / shape
def _t(lab, tx, ln, kids):
    return [lab, tx, ln, kids]


T2 = _t("r", None, None, [_t("a", 0, 1, []), _t("b", 1, 2, [])])
T1 = _t("r", None, None, [_t("a", 0, 1, [])])
T5 = _t("r", None, None, [_t("i1", None, 1, [_t("a", 0, 1, []), _t("b", 1, 2, [])]),
                          _t("i2", None, 2, [_t("c", 2, 1, []), _t("i3", None, 0, [_t("d", 3, 3, []), _t("e", 4, 1, [])])])])
T4P = _t(None, None, None, [_t(None, 0, None, []), _t(None, None, None, [_t(None, 1, None, [])]),
                            _t(None, 2, None, []), _t(None, 3, None, [])])
T3 = _t("r", None, None, [_t("a", 0, 1, []), _t("i", None, 2, [_t("b", 1, 1, []), _t("c", 2, 3, [])])])


def variants(cls, shape, quick):
    """real objects standing for one model shape (kinds of the model heap decide annotated / bare)"""
    annotated = "AnnotationSet" in (shape["kind"] if isinstance(shape, dict) else shape)
    if cls == "Tree":
        if annotated:
            vs = [{"name": "t2-annotated", "nested": T2, "nleaves": 2, "rooted": True, "ann": True, "comments": True},
                  {"name": "t5-rich", "nested": T5, "nleaves": 5, "rooted": True, "ann": True, "rich": True, "comments": True, "itaxa": True,
                   "extra": True, "encode": True, "bound_other": True, "weight": 2, "ns_ann": True, "ns_extra": 1, "ns_holes": [1]}]
        else:
            vs = [{"name": "t1-bare", "nested": T1, "nleaves": 1, "rooted": None},
                  {"name": "t4-polytomy-unrooted", "nested": T4P, "nleaves": 4, "rooted": False, "ns_order": "reverse"},
                  {"name": "t3-encoded", "nested": T3, "nleaves": 3, "rooted": True, "encode": True, "extra": True}]
        return vs
    if cls == "TreeList" and isinstance(shape, dict) and shape["kind"].count("Tree") >= 2:
        # model shapes with a cross-reference between two members: from the first to the second / the reverse
        first = len(shape["succ"][4]) > 2
        return [{"name": "l-xref-extract-" + ("first" if first else "last"), "trees": [T5], "nleaves": 5, "rooted": True,
                 "ann": True, "comments": True, "xref": "extract-first" if first else "extract-last"},
                {"name": "l-xref-annotations-" + ("fwd" if first else "rev"), "trees": [T3, T2] if first else [T2, T3],
                 "nleaves": 3, "rooted": True, "ann": True, "xref": "annotations"}]
    if cls == "TreeList":
        return [{"name": "l1", "trees": [T2], "nleaves": 2, "rooted": True, "ann": True, "comments": True},
                {"name": "l3-rich", "trees": [T5, T3, T2], "nleaves": 5, "rooted": True, "ann": True, "rich": True, "comments": True,
                 "extra": True, "encode": True, "bound_other": True, "ns_ann": True}]
    if cls == "Matrix":
        return [{"name": "dna2x3", "mtype": "dna", "ntax": 2, "rows": ["ACG", "A-T"], "ann": True, "comments": True},
                {"name": "cont3x2-rich", "mtype": "cont", "ntax": 3, "rows": [[1.0, 2.0], [0.5, 0.25], [3.0, 4.0]], "ann": True,
                 "rich": True, "comments": True, "subsets": True, "ctypes": True, "extra": True, "ns_ann": True, "ns_extra": 1},
                {"name": "std2x3", "mtype": "standard", "ntax": 2, "rows": ["010", "110"], "ann": True}]
    return [{"name": "ns2", "ntax": 2, "ns_ann": True},
            {"name": "ns4-holes", "ntax": 4, "ns_ann": True, "ns_holes": [0, 2], "bitmask": True, "extra": True}]


def model_cases(ctx, cfg, smallest_only=False):
    dot = os.path.join(ctx.work, "c12_%s.dot" % cfg)
    ctx.model("MC_CopySem", cfg, extra=("-dump", "dot,actionlabels", dot), heap="2g", workers=4)
    inits, edges, states = tlaval.read_dot(dot)
    paths, root = tlaval.shortest_paths(inits, edges)
    os.remove(dot)
    cases = []
    nedges = 0
    for (u, v, name, args) in edges:
        if u not in paths:
            continue
        nedges += 1
        init = states[root[u]]
        cls = init["cls"]
        steps = [[n] + list(a) for (n, a) in paths[u] + [(name, args)]]
        if steps[0][0] != "Copy":
            continue
        if any(s[0] in ("Copy", "Recopy") and s[1] not in ROUTES[cls] for s in steps):
            continue
        vs = variants(cls, init["g"], ctx.quick)
        if smallest_only:
            vs = vs[:1] if ctx.quick else vs[:2]
        for vi, var in enumerate(vs):
            if ctx.quick and vi != nedges % len(vs):
                continue        # quick tier: the variants take turns
            if not ctx.quick and len(steps) > 2 and vi != (0 if nedges % 3 else (nedges // 3) % len(vs)):
                continue        # thorough, histories longer than copy + one step: two in three on the smallest variant
            cases.append({"kind": "path", "cls": cls, "conf": init.get("conf", "default"), "variant": var, "steps": steps,
                          "seed": ctx.seed * 1000003 + nedges * 7 + vi, "arg": (nedges + vi) % 97})
    return cases, nedges


# --------------------------------------------------------------------------- random histories on larger objects
def random_case(rng, k, seed):
    cls = rng.choice(["Tree", "Tree", "Tree", "TreeList", "Matrix", "Namespace"])
    feats = {"ann": rng.random() < 0.7, "rich": rng.random() < 0.6, "comments": rng.random() < 0.6,
             "extra": rng.random() < 0.5, "encode": rng.random() < 0.5, "lookup": rng.random() < 0.7,
             "bound_other": rng.random() < 0.4, "ns_ann": rng.random() < 0.5,
             "ns_extra": rng.choice([0, 0, 1, 2]), "rooted": rng.choice([None, True, False])}
    if rng.random() < 0.3:
        feats["ns_holes"] = [0]
    if rng.random() < 0.2:
        feats["ns_order"] = rng.choice(["reverse", "sort"])

    def rtree(nl):
        return build.assign(build.random_parents(rng, nl, p_poly=0.25, p_unif=0.1), rng, list(range(nl)),
                            lengths=(None, 0, 1, 2, 3, 0.5), label_internal=rng.random() < 0.7)
    if cls == "Tree":
        nl = rng.randint(6, 12)
        var = dict(feats, name="rand-tree", nested=rtree(nl), nleaves=nl, weight=rng.choice([None, 1, 2]), itaxa=nl % 2 == 0)
    elif cls == "TreeList":
        nl = rng.randint(4, 7)
        var = dict(feats, name="rand-list", trees=[rtree(nl) for _ in range(rng.randint(1, 4))], nleaves=nl, itaxa=nl % 2 == 1,
                   xref=rng.choice([None, None, "extract-first", "extract-last", "annotations"]))
    elif cls == "Matrix":
        nt = rng.randint(3, 6)
        nc = rng.randint(2, 6)
        mt = rng.choice(["dna", "cont", "standard"])
        if mt == "dna":
            rows = ["".join(rng.choice("ACGT-N") for _ in range(nc)) for _ in range(nt)]
        elif mt == "standard":
            rows = ["".join(rng.choice("01") for _ in range(nc)) for _ in range(nt)]
        else:
            rows = [[rng.choice([0.0, 0.5, 1.0, 2.25]) for _ in range(nc)] for _ in range(nt)]
        var = dict(feats, name="rand-matrix", mtype=mt, ntax=nt, rows=rows, subsets=rng.random() < 0.5, ctypes=rng.random() < 0.5)
    else:
        var = dict(feats, name="rand-ns", ntax=rng.randint(3, 8), bitmask=rng.random() < 0.5, ns_ann=True)
    steps = [["Copy", rng.choice(ROUTES[cls])]]
    for _ in range(rng.randint(3, 7)):
        if rng.random() < 0.12:
            steps.append(["Recopy", rng.choice(ROUTES[cls])])
        else:
            steps.append(["Mutate", rng.choice(["src", "cpy"]), rng.choice(MODEL_OPS + EXTRA_OPS), rng.randrange(10 ** 4)])
    conf = rng.choice(CONFIGS) if rng.random() < 0.6 else "default"
    if conf in ("unrooted", "rooting_none", "weighted") and cls not in ("Tree", "TreeList"):
        conf = "ns_locked"
    return {"kind": "random", "cls": cls, "conf": conf, "variant": var, "steps": steps, "seed": seed}


BROKEN = [("Broken_CopySem_no_preseed_taxa.cfg", "EqualAfterCopy"),
          ("Broken_CopySem_share_comments.cfg", "SharingExactlyAsDocumented"),
          ("Broken_CopySem_share_comments_visible.cfg", "MutationNotVisibleThroughOther"),
          ("Broken_CopySem_annset_keeps_target.cfg", "BoundAnnotationsFollowCopy"),
          ("Broken_CopySem_thin_shares_edge.cfg", "SharingExactlyAsDocumented"),
          ("Broken_CopySem_clone1_shares_trees.cfg", "SharingExactlyAsDocumented"),
          ("Broken_CopySem_locked_ns_shared.cfg", "SharingExactlyAsDocumented"),
          ("Broken_CopySem_xref_target_kept.cfg", "SharingExactlyAsDocumented")]


def _split_drift(ctx):
    keep = []
    for v in ctx.verdicts:
        if str(v.get("clause", "")).startswith("DRIFT."):
            key = v["clause"][6:] + ":" + str(v.get("class", ""))
            ctx.drift[key] = ctx.drift.get(key, 0) + 1
        else:
            keep.append(v)
    ctx.verdicts[:] = keep


def run(ctx):
    quick = ctx.quick
    # 1. TLC checks the reference copy rule against the four clauses on every small graph x route x history,
    #    and must find each seeded copy defect (the invariants are not vacuous);
    # 2. spec -> code: the state graph of the replay model is dumped: one real execution per transition.
    #    (independent TLC runs: started side by side)
    from concurrent.futures import ThreadPoolExecutor
    with ThreadPoolExecutor(max_workers=4) as ex:
        f_main = ex.submit(ctx.model, "MC_CopySem", "MC_CopySem_quick.cfg" if quick else "MC_CopySem_thorough.cfg", heap="3g")
        f_replay = ex.submit(model_cases, ctx, "MC_CopySem_replay_quick.cfg" if quick else "MC_CopySem_replay_thorough.cfg")
        f_broken = [ex.submit(ctx.model, "MC_CopySem", cfg, expect_violation=inv, count=False, heap="1g", workers=2)
                    for cfg, inv in BROKEN]
        # 2b. the object-configuration dimension: every class x configuration x route x (relabel a taxon, annotate
        #     the namespace, relabel the object) - this run both checks the model and dumps the transitions
        f_conf = ex.submit(model_cases, ctx, "MC_CopySem_conf_quick.cfg" if quick else "MC_CopySem_conf_thorough.cfg", True)
        cases, nedges = f_replay.result()
        ccases, cedges = f_conf.result()
        cases, nedges = cases + ccases, nedges + cedges
        for f in f_broken:
            f.result()
        f_main.result()
    # 3. seeded random histories on larger objects
    rng = random.Random(ctx.seed + 12)
    nrand = 120 if quick else 1500
    rnd = [random_case(rng, k, ctx.seed * 7919 + k) for k in range(nrand)]
    # drive and judge in chunks (bounded memory: the heavy projected states of traces without a failing
    # verdict are dropped once TLC has judged them; traces with a verdict stay complete for the replay file)
    allcases = cases + rnd
    chunk = 3000 if quick else 1500
    first = last = None
    for c0 in range(0, len(allcases), chunk):
        driven = ctx.drive(allcases[c0:c0 + chunk], run_case)
        n0 = len(ctx.events)
        ctx.judge("Trace_CopySem", driven, batch=650 if quick else 800, heap="1g")
        _split_drift(ctx)
        for case, evs in driven:
            route = ""
            for e in evs:
                if e["action"] == "Copy":
                    route = e["route"]
                    ctx.add_nontrivial(["copy", case["cls"], case.get("conf", "default"), case["variant"]["name"], route, e["from"]])
                elif e["action"] == "Mutate" and e["raised"] == "":
                    ctx.add_nontrivial(["mutate", case["cls"], case.get("conf", "default"), case["variant"]["name"], route, e["side"], e["op"], e["desc"]])
        if driven:
            first = first or driven[0]
            last = driven[-1]
        failing = set(v["tid"] for v in ctx.verdicts)
        for e in ctx.events[n0:]:
            if e["tid"] not in failing:
                for k in ("g", "vs", "vc"):
                    e.pop(k, None)
        del driven
    driven = [x for x in (first, last) if x is not None]
    ctx.rule = ("cases = one real execution per transition of the dumped TLC state graph of MC_CopySem (%d transitions: "
                "initial graph x copy route x history of mutations / copies of the copy) on each real variant of the "
                "transition's class, + %d seeded random histories on larger objects; distinct_nontrivial counts distinct "
                "(copy: class, configuration, variant, route, copied-from) and (mutation: class, configuration, variant, route, side, operation, effect) "
                "combinations that were actually executed without raising" % (nedges, nrand))
    ctx.exhaustive = False
    import resource
    ru, rs = resource.getrusage(resource.RUSAGE_CHILDREN), resource.getrusage(resource.RUSAGE_SELF)
    ctx.extra["cpu_seconds_total"] = round(ru.ru_utime + ru.ru_stime + rs.ru_utime + rs.ru_stime, 1)
    ctx.log("total CPU (TLC + drivers): %.0f s" % ctx.extra["cpu_seconds_total"])
    ctx.extra["model_transitions_replayed"] = nedges
    ctx.extra["replayed_cases"] = len(cases)
    ctx.assumptions.append("state-alphabet singletons (StateAlphabet, StateIdentity: __deepcopy__ returns self) are values, not heap objects")
    ctx.assumptions.append("the projection reads instance state only (__dict__, container items, __slots__): class- and module-level objects are not part of an instance")
    ctx.assumptions.append("object digests and the canonical 'full' view are crc32 values computed by the projection; TLC compares them")
    if driven:
        c0, e0 = driven[0]
        ctx.add_sample({"case": {k: c0.get(k) for k in ("cls", "conf", "steps", "seed")}, "variant": c0["variant"]["name"],
                        "events": [{k: e[k] for k in e if k not in ("g", "vs", "vc")} for e in e0]})
        c1, e1 = driven[-1]
        ctx.add_sample({"case": {k: c1.get(k) for k in ("cls", "conf", "steps", "seed")}, "variant": c1["variant"]["name"],
                        "events": [{k: e[k] for k in e if k not in ("g", "vs", "vc")} for e in e1]})


def replay(ctx, rec):
    driven = ctx.drive([rec["case"]], run_case, parallel=False)
    ctx.judge("Trace_CopySem", driven)
    _split_drift(ctx)
    ctx.rule = "replay of one recorded case"
    ctx.add_sample({"case": rec["case"]})
