"""C14 - path distances and common ancestors are exact, and NJ/UPGMA invert them.

spec/DistMatrix.tla defines, on the graph form of a tree, the path between two
nodes, its weight and number of edges, the node where it turns, the MRCA of a
taxon set, the mean-pairwise / nearest-taxon sums, and the post-conditions of
NJ (same unrooted weighted splits, same path lengths) and UPGMA (same rooted
clades and node heights; every join at half the arithmetic mean distance).
MC_DistMatrix lets TLC check the soundness of these definitions on a bounded
domain of trees, decide the preconditions of the NJ / UPGMA clauses, and dump
the domain.  Every dumped tree is built as a real Tree and the public API is
run on it; Trace_DistMatrix (TLC) judges every observed value against the
definitions evaluated on the tree projected from raw pointers.  Seeded random
drivers do the same on larger trees (6-12 leaves).

The Python side contains no oracle: it builds inputs, calls the API, projects
objects (trees -> graph form, floats -> scaled integers / exact rationals,
nodes -> ids, taxa -> codes) and logs.
"""
import io
import itertools
import os
import random
import re
import warnings
from fractions import Fraction

from vlib import core, proj, build

ID = "C14"
MODES = ("taxa", "taxon_labels", "leafset_bitmask")
RAISED = object()


# ---------------------------------------------------------------------------- projections of values
# All edge lengths of a case are the logged small numbers times 2**EXP[0] (an exact power of two, so
# every float operation of the library sees the same mantissas); the projections divide the scale out
# again, so that TLC sees the same integers whatever the scale.  Set by run_case (one case at a time per process).
EXP = [0]


def unit():
    return Fraction(2) ** EXP[0]


def sc(v):
    """distance -> integer in units of 1/4 (of the case's scale); -2 not representable, -3 None, -9 the call raised"""
    if v is RAISED:
        return -9
    if v is None:
        return -3
    try:
        f = Fraction(v) * proj.LSCALE / unit()
    except Exception:
        return -2
    if f.denominator != 1 or f < 0 or f > 10 ** 7:
        return -2
    return int(f)


def cnt(v):
    """edge count -> int; -2 not an integer, -9 raised"""
    if v is RAISED:
        return -9
    try:
        f = Fraction(v)
    except Exception:
        return -2
    if f.denominator != 1 or f < 0 or f > 10 ** 7:
        return -2
    return int(f)


def rat(v, max_den=10000, scaled=True):
    """float -> [num, den, exact?] (proj.rat) after dividing the case's power-of-two scale out (exact); never null, den > 0"""
    if v is RAISED or v is None:
        return [0, 1, False]
    try:
        r = proj.rat(float(v) * 2.0 ** (-EXP[0]) if scaled and EXP[0] else v, max_den)
    except Exception:
        return [0, 1, False]
    if r[1] <= 0:
        return [0, 1, False]
    return [int(r[0]), int(r[1]), bool(r[2])]


class View(object):
    """projection of a live tree: graph form + node ids + taxon codes (shared code table per namespace)"""

    def __init__(self, ns):
        self.codes = proj.TaxonCodes(ns)

    def snap(self, tree):
        ids = {}
        g = proj.tree_graph(tree, codes=self.codes, node_ids=ids, labels=False, scale=Fraction(proj.LSCALE) / unit())
        order = ids.pop("__order__")
        return g, ids, order

    def code(self, t):
        return self.codes.code(t)


def nid(ids, nd):
    if nd is RAISED:
        return -9
    if nd is None:
        return 0
    return ids.get(id(nd), -1)


def call(fn, errs):
    try:
        return fn()
    except Exception as ex:
        errs.append(type(ex).__name__)
        return RAISED


# ---------------------------------------------------------------------------- building the inputs of a case
def scaled_nested(nd):
    """the nested form with every length multiplied by the case's scale (None and 0 stay)"""
    if not EXP[0]:
        return nd
    ln = nd[2]
    return [nd[0], nd[1], ln if not ln else ln * 2.0 ** EXP[0], [scaled_nested(c) for c in nd[3]]]


def make(case, dendropy, rooted):
    ns, taxa = build.make_namespace(dendropy, case["ntax"], holes=tuple(case.get("holes", ())), order=case.get("order"))
    tree = build.build_tree(dendropy, scaled_nested(case["nested"]), ns, taxa, rooted=rooted)
    return ns, taxa, tree


# ---------------------------------------------------------------------------- matrices with a history
HISTS = ("rotated", "rerooted", "more_taxa", "relength", "unrelated")


def copy_nested(nd):
    return [nd[0], nd[1], nd[2], [copy_nested(c) for c in nd[3]]]


def prior_nested(case):
    """the tree a matrix object was compiled from BEFORE it is compiled from the case's tree (choice of inputs):
    children rotated + new lengths / rerooted / one more taxon / new lengths only / an unrelated tree on the same taxa"""
    rng = random.Random(case["seed"] * 77 + 5)
    kind = case["hist"]
    t = copy_nested(case["nested"])

    def relength(nd):
        nd[2] = rng.choice((None, 0, 1, 2, 3))
        for c in nd[3]:
            relength(c)

    def rotate(nd):
        nd[3].reverse()
        for c in nd[3]:
            rotate(c)
    if kind == "rerooted":
        inner = [i for i, c in enumerate(t[3]) if c[3]]
        if inner and len(t[3]) >= 2:
            i = rng.choice(inner)
            c = t[3].pop(i)
            rest = [None, None, c[2], t[3]]
            return [None, None, None, c[3] + [rest]]
        kind = "rotated"
    if kind == "more_taxa":
        if case["ntax"] > case["nleaves"] and t[3]:
            t[3].insert(rng.randrange(len(t[3]) + 1), [None, case["nleaves"], rng.choice((None, 1, 2)), []])
            rotate(t)
            return t
        kind = "rotated"
    if kind == "unrelated":
        nl = case["nleaves"]
        perm = list(range(nl))
        rng.shuffle(perm)
        return build.assign(build.random_parents(rng, nl, p_poly=0.3, p_unif=0.1), rng, perm)
    if kind == "rotated":
        rotate(t)
    relength(t)
    return t


def matrix_for(case, dendropy, tree, ns, taxa, node_matrix=False):
    """the matrix of `tree`: fresh (Tree.phylogenetic_distance_matrix / node_distance_matrix), or - cases with a
    history - ONE matrix object compiled from another tree first and then re-compiled from `tree` with the public
    compile_from_tree()"""
    from dendropy.calculate import phylogeneticdistance
    if not case.get("hist"):
        return tree.node_distance_matrix() if node_matrix else tree.phylogenetic_distance_matrix()
    prior = build.build_tree(dendropy, scaled_nested(prior_nested(case)), ns, taxa, rooted=case["rooted"])
    m = phylogeneticdistance.NodeDistanceMatrix() if node_matrix else phylogeneticdistance.PhylogeneticDistanceMatrix()
    m.compile_from_tree(prior)
    m.compile_from_tree(tree)
    return m


def hist_of(case):
    return case.get("hist") or "fresh"


def subsets_of(items, rng, limit):
    """all non-empty subsets when there are few, otherwise singletons/pairs/random ones (choice of inputs only)"""
    n = len(items)
    if 2 ** n - 1 <= limit:
        out = []
        for k in range(1, n + 1):
            out.extend(list(c) for c in itertools.combinations(items, k))
        return out
    out = [[x] for x in rng.sample(items, min(4, n))]
    out.append(list(items))
    while len(out) < limit:
        k = rng.choice((2, 2, 3, 3, 4, 5, n - 1))
        out.append(rng.sample(items, max(1, min(k, n))))
    return out


# ---------------------------------------------------------------------------- parts of a case
def part_pdm(case, dendropy, rng, evs):
    ns, taxa, tree = make(case, dendropy, case["rooted"])
    view = View(ns)
    errs = []
    pdm = call(lambda: matrix_for(case, dendropy, tree, ns, taxa), errs)
    g, ids, order = view.snap(tree)
    leaf_taxa = [nd.taxon for nd in order if not nd._child_nodes]
    tx = [view.code(t) for t in leaf_taxa]
    ev = {"action": "Pdm", "hist": hist_of(case), "g": g, "tx": tx, "raised": "", "pd": [], "call": [], "pc": [], "mr": [], "mapped": [],
          "dists": [], "distsu": [], "subs": []}
    if pdm is RAISED:
        ev["raised"] = errs[0]
        ev["pd"] = ev["call"] = ev["pc"] = ev["mr"] = [[-9] * len(tx) for _ in tx]
        evs.append(ev)
        return
    ev["pd"] = [[sc(call(lambda: pdm.patristic_distance(a, b), errs)) for b in leaf_taxa] for a in leaf_taxa]
    ev["call"] = [[sc(call(lambda: pdm(a, b), errs)) for b in leaf_taxa] for a in leaf_taxa]
    ev["pc"] = [[cnt(call(lambda: pdm.path_edge_count(a, b), errs)) for b in leaf_taxa] for a in leaf_taxa]
    if len(leaf_taxa) >= 2:
        ev["mr"] = [[nid(ids, call(lambda: pdm.mrca(a, b), errs)) for b in leaf_taxa] for a in leaf_taxa]
    else:
        # a tree with a single leaf has no pair of leaf taxa: pdm.mrca(t, t) is outside the property (it raises KeyError; counted as drift)
        e1 = []
        call(lambda: pdm.mrca(leaf_taxa[0], leaf_taxa[0]), e1)
        ev["mr"] = [[0]]
        ev["single_leaf_mrca_raised"] = e1[0] if e1 else ""
    ev["mapped"] = [view.code(t) for t in pdm.taxon_iter()]
    d = call(lambda: pdm.distances(), errs)
    ev["dists"] = [-9] if d is RAISED else sorted(sc(x) for x in d)
    d = call(lambda: pdm.distances(is_weighted_edge_distances=False), errs)
    ev["distsu"] = [-9] if d is RAISED else sorted(cnt(x) for x in d)
    if len(leaf_taxa) >= 2:
        groups = [(None, True)]
        cands = [s for s in subsets_of(leaf_taxa, rng, 40) if len(s) >= 2]
        if len(leaf_taxa) > 5:
            cands = cands[:8]
        groups.extend((s, False) for s in cands)
        for S, is_all in groups:
            if S is None:
                fn, members = None, leaf_taxa
            else:
                sset = set(id(t) for t in S)
                fn, members = (lambda t, sset=sset: id(t) in sset), S
            e2 = []
            rec = {"S": [view.code(t) for t in members], "all": is_all,
                   "mpd": rat(call(lambda: pdm.mean_pairwise_distance(filter_fn=fn), e2)),
                   "mpdu": rat(call(lambda: pdm.mean_pairwise_distance(filter_fn=fn, is_weighted_edge_distances=False), e2), scaled=False),
                   "mntd": rat(call(lambda: pdm.mean_nearest_taxon_distance(filter_fn=fn), e2)),
                   "mntdu": rat(call(lambda: pdm.mean_nearest_taxon_distance(filter_fn=fn, is_weighted_edge_distances=False), e2), scaled=False),
                   "raised": e2[0] if e2 else ""}
            ev["subs"].append(rec)
    if errs:
        ev["raised"] = errs[0]
    evs.append(ev)


def part_ndm(case, dendropy, rng, evs):
    ns, taxa, tree = make(case, dendropy, case["rooted"])
    view = View(ns)
    errs = []
    ndm = call(lambda: matrix_for(case, dendropy, tree, ns, taxa, node_matrix=True), errs)
    g, ids, order = view.snap(tree)
    ev = {"action": "Ndm", "hist": hist_of(case), "g": g, "raised": "", "pd": [], "pc": [], "mr": []}
    if ndm is RAISED:
        ev["raised"] = errs[0]
        ev["pd"] = ev["pc"] = ev["mr"] = [[-9] * len(order) for _ in order]
    else:
        ev["pd"] = [[sc(call(lambda: ndm.patristic_distance(a, b), errs)) for b in order] for a in order]
        ev["pc"] = [[cnt(call(lambda: ndm.path_edge_count(a, b), errs)) for b in order] for a in order]
        ev["mr"] = [[nid(ids, call(lambda: ndm.mrca(a, b), errs)) for b in order] for a in order]
        if errs:
            ev["raised"] = errs[0]
    evs.append(ev)


class Batches(object):
    """groups consecutive queries that returned in the same tree state into one event
    (a query may restructure the tree: the implicit encoding collapses the basal bifurcation of an unrooted tree).
    Queries are logged compactly: q = [[int, ...], ...], errs = [[index into q (1-based), exception name], ...]"""

    def __init__(self, evs, view, tree, base):
        self.evs, self.view, self.tree, self.base = evs, view, tree, base
        self.key = None
        self.cur = None
        self.ids = None

    def add(self, thunk, record):
        """thunk() -> raw result; record(result, ids) -> list of ints (projected with the post-state ids)"""
        errs = []
        res = call(thunk, errs)
        key = raw_signature(self.tree)
        if key != self.key:
            g, ids, order = self.view.snap(self.tree)
            self.ids = ids
            self.cur = dict(self.base)
            self.cur["g"] = g
            self.cur["q"] = []
            self.cur["errs"] = []
            self.evs.append(self.cur)
            self.key = key
        self.cur["q"].append(record(res, self.ids))
        if errs:
            self.cur["errs"].append([len(self.cur["q"]), errs[0]])


def raw_signature(tree):
    """identity of the object graph and of everything the projection reads (to notice that a call changed the tree)"""
    out = [id(tree._seed_node), tree.is_rooted]
    st = [tree._seed_node]
    n = 0
    while st and n < proj.NODE_CAP:
        nd = st.pop()
        n += 1
        ch = nd._child_nodes
        e = nd._edge
        out.append((id(nd), id(nd._parent_node), len(ch), id(e), id(e._head_node), e.length, id(nd.taxon)))
        st.extend(reversed(ch))
    return tuple(out)


def tm_queries(b, tree, pairs, view):
    from dendropy.calculate import treemeasure
    for (x, y) in pairs:
        b.add(lambda: treemeasure.patristic_distance(tree, x, y),
              lambda res, ids, x=x, y=y: [view.code(x), view.code(y), sc(res)])


def part_tm(case, dendropy, rng, evs):
    ns, taxa, tree = make(case, dendropy, case["rooted_tm"])
    view = View(ns)
    leaf_taxa = [nd.taxon for nd in view.snap(tree)[2] if not nd._child_nodes]
    pairs = [(a, b) for a in leaf_taxa for b in leaf_taxa]
    if len(pairs) > 60:
        pairs = rng.sample(pairs, 60)
    tm_queries(Batches(evs, view, tree, {"action": "Tm", "enc": "fresh"}), tree, pairs, view)


def mrca_queries(b, tree, ns, subsets, modes, refresh):
    """q = [mode index (1-based into MODES), subset index (1-based into the event's S), node id]"""
    kw = {"is_bipartitions_updated": False} if refresh else {}
    for mode in modes:
        mi = MODES.index(mode) + 1
        for si, S in enumerate(subsets):
            if mode == "taxa":
                th = lambda S=S: tree.mrca(taxa=list(S), **kw)
            elif mode == "taxon_labels":
                th = lambda S=S: tree.mrca(taxon_labels=[t.label for t in S], **kw)
            else:
                th = lambda S=S: tree.mrca(leafset_bitmask=ns.taxa_bitmask(taxa=list(S)), **kw)
            b.add(th, lambda res, ids, mi=mi, si=si: [mi, si + 1, nid(ids, res)])


def apply_edit(kind, tree, taxa, view, rng, dendropy):
    """a structural edit through the public node API; returns the name of the edit actually applied"""
    g, ids, order = view.snap(tree)
    below = {}

    def sub(nd):
        out = [nd]
        for c in nd._child_nodes:
            out.extend(sub(c))
        return out
    leaves = [nd for nd in order if not nd._child_nodes]
    internals = [nd for nd in order if nd._child_nodes]
    on_tree = set(id(nd.taxon) for nd in leaves)
    spare = [t for t in taxa if id(t) not in on_tree]
    if kind == "move":
        cands = []
        for x in order:
            p = x._parent_node
            if p is None or len(p._child_nodes) < 2:
                continue
            inside = set(id(y) for y in sub(x))
            for y in internals:
                if id(y) not in inside and y is not p:
                    cands.append((x, y))
        if cands:
            x, y = rng.choice(cands)
            x._parent_node.remove_child(x)
            y.add_child(x)
            return "move"
        kind = "swap"
    if kind == "prune":
        cands = [x for x in leaves if x._parent_node is not None and len(x._parent_node._child_nodes) >= 2 and len(leaves) >= 2]
        if cands:
            x = rng.choice(cands)
            x._parent_node.remove_child(x)
            return "prune"
        kind = "swap"
    if kind == "graft":
        if spare and internals:
            y = rng.choice(internals)
            ln = rng.choice((None, 0, 1, 2))
            y.add_child(dendropy.Node(taxon=spare[0], edge_length=ln if not ln else ln * 2.0 ** EXP[0]))
            return "graft"
        kind = "swap"
    if kind == "swap" and len(leaves) >= 2:
        a, b2 = rng.sample(leaves, 2)
        a.taxon, b2.taxon = b2.taxon, a.taxon
        return "swap"
    return "none"


def part_mrca(case, dendropy, rng, evs):
    ns, taxa, tree = make(case, dendropy, case["rooted_mrca"])
    view = View(ns)
    enc = case["enc"]
    if enc == "encode":
        tree.encode_bipartitions()
    elif enc == "update":
        tree.update_bipartitions(suppress_unifurcations=False)
    subsets = subsets_of(list(taxa), rng, 63 if len(taxa) <= 6 else 36)
    S = [sorted(view.code(t) for t in sub) for sub in subsets]
    mrca_queries(Batches(evs, view, tree, {"action": "Mrca", "enc": enc, "S": S}), tree, ns, subsets, MODES, refresh=False)
    applied = apply_edit(case["edit"], tree, taxa, view, rng, dendropy)
    if applied == "none":
        return
    mrca_queries(Batches(evs, view, tree, {"action": "Mrca", "enc": "refresh_after_" + applied, "S": S}), tree, ns, subsets, MODES, refresh=True)
    mrca_queries(Batches(evs, view, tree, {"action": "Mrca", "enc": "current_after_refresh", "S": S}), tree, ns, subsets,
                 [MODES[case["seed"] % 3]], refresh=False)
    # a second edit leaves the encoding stale again; treemeasure.patristic_distance has to refresh it by itself
    applied2 = apply_edit(EDITS[(EDITS.index(case["edit"]) + 1 + case["seed"] % 3) % 4], tree, taxa, view, rng, dendropy)
    if applied2 == "none":
        return
    leaf_taxa = [nd.taxon for nd in view.snap(tree)[2] if not nd._child_nodes]
    pairs = [(x, y) for x in leaf_taxa for y in leaf_taxa if x is not y]
    if len(pairs) > 8:
        pairs = rng.sample(pairs, 8)
    tm_queries(Batches(evs, view, tree, {"action": "Tm", "enc": "stale_after_" + applied2}), tree, pairs, view)


def result_event(action, src, g, view, thunk, hist="fresh"):
    errs = []
    res = call(thunk, errs)
    ev = {"action": action, "src": src, "hist": hist, "g": g, "raised": "", "u": g, "rl": [[0, 1]] * g["n"], "rx": True}
    if res is RAISED:
        ev["raised"] = errs[0]
        return ev
    u, ids, order = view.snap(res)
    rl, rx = [], True
    for nd in order:
        e = getattr(nd, "_edge", None)
        ln = getattr(e, "length", None) if e is not None else None
        if ln is None:
            rl.append([0, 1])
        else:
            r = rat(ln, scaled=(src != "tree_steps"))      # edge-count distances carry no length scale
            rl.append([r[0], r[1]])
            rx = rx and r[2]
    ev["u"], ev["rl"], ev["rx"] = u, rl, rx
    return ev


def part_cluster(case, dendropy, rng, evs):
    ns, taxa, tree = make(case, dendropy, case["rooted"])
    view = View(ns)
    errs0 = []
    pdm = call(lambda: matrix_for(case, dendropy, tree, ns, taxa), errs0)
    hist = hist_of(case)
    g, ids, order = view.snap(tree)
    leaf_taxa = [nd.taxon for nd in order if not nd._child_nodes]
    if pdm is RAISED:
        def fail():
            raise RuntimeError(errs0[0])
        for action, flag in (("Nj", "nj"), ("Upgma", "upgma")):
            if case.get(flag):
                ev = result_event(action, "tree", g, view, fail, hist)
                ev["raised"] = errs0[0]
                evs.append(ev)
        return
    if case.get("nj"):
        evs.append(result_event("Nj", "tree", g, view, lambda: pdm.nj_tree(), hist))
    if case.get("upgma"):
        evs.append(result_event("Upgma", "tree", g, view, lambda: pdm.upgma_tree(), hist))
    if case.get("steps"):
        # the same on the edge-count distances of the tree (every edge weighs 1)
        evs.append(result_event("Nj", "tree_steps", g, view, lambda: pdm.nj_tree(is_weighted_edge_distances=False), hist))
        evs.append(result_event("Upgma", "tree_steps", g, view, lambda: pdm.upgma_tree(is_weighted_edge_distances=False), hist))
    if case.get("csv"):
        errs = []

        def round_trip():
            out = io.StringIO()
            pdm.write_csv(out, is_normalize_by_tree_size=False)
            return dendropy.PhylogeneticDistanceMatrix.from_csv(io.StringIO(out.getvalue()), taxon_namespace=ns)
        pdm2 = call(round_trip, errs)
        ev = {"action": "Csv", "hist": hist, "g": g, "tx": [view.code(t) for t in leaf_taxa], "raised": "", "pd": []}
        if pdm2 is RAISED:
            ev["raised"] = errs[0]
            ev["pd"] = [[-9] * len(leaf_taxa) for _ in leaf_taxa]
            evs.append(ev)
            return
        ev["pd"] = [[sc(call(lambda: pdm2.patristic_distance(a, b), errs)) for b in leaf_taxa] for a in leaf_taxa]
        if errs:
            ev["raised"] = errs[0]
        evs.append(ev)
        if case.get("nj"):
            evs.append(result_event("Nj", "csv", g, view, lambda: pdm2.nj_tree(), hist))
        if case.get("upgma_csv"):
            evs.append(result_event("Upgma", "csv", g, view, lambda: pdm2.upgma_tree(), hist))


def part_csvfloat(case, dendropy, rng, evs):
    """edge lengths that are not dyadic: the matrix read back from CSV must be the matrix that was written,
    float for float (both sides are logged as repr strings; TLC compares them)"""
    ns, taxa, tree = make(case, dendropy, case["rooted"])
    view = View(ns)
    g, ids, order = view.snap(tree)
    g["len"] = [-1] * g["n"]                      # lengths are not representable in quarters; the clause does not use them
    leaf_taxa = [nd.taxon for nd in order if not nd._child_nodes]
    for norm in (False, True):
        errs = []

        def both():
            pdm = tree.phylogenetic_distance_matrix()
            out = io.StringIO()
            pdm.write_csv(out, is_normalize_by_tree_size=norm)
            pdm2 = dendropy.PhylogeneticDistanceMatrix.from_csv(io.StringIO(out.getvalue()), taxon_namespace=ns)
            a = [[repr(float(pdm.patristic_distance(x, y, is_normalize_by_tree_size=norm))) for y in leaf_taxa] for x in leaf_taxa]
            b = [[repr(float(pdm2.patristic_distance(x, y))) for y in leaf_taxa] for x in leaf_taxa]
            return a, b
        res = call(both, errs)
        ev = {"action": "CsvFloat", "g": g, "norm": norm, "raised": errs[0] if errs else "",
              "a": [["x"]] if res is RAISED else res[0], "b": [["y"]] if res is RAISED else res[1]}
        evs.append(ev)


PARTS = {"csvfloat": part_csvfloat, "pdm": part_pdm, "ndm": part_ndm, "tm": part_tm, "mrca": part_mrca, "cluster": part_cluster}


def run_case(case):
    import dendropy
    warnings.simplefilter("ignore")
    EXP[0] = int(case.get("scale_exp", 0))
    evs = []
    for k, part in enumerate(case["parts"]):
        PARTS[part](case, dendropy, random.Random(case["seed"] * 31 + k), evs)
    return evs


# ---------------------------------------------------------------------------- enumeration of cases
_STATE = re.compile(r"^/\\ (\w+) = (.*)$")


def read_model_dump(path):
    """MC_DistMatrix dump: variables p, lens (tuples of ints), njok, ultra (booleans); shape-only states are skipped"""
    out = []
    cur = {}

    def flush():
        if cur.get("lens"):
            out.append(dict(cur))
    with open(path) as f:
        for line in f:
            if line.startswith("State "):
                flush()
                cur = {}
                continue
            m = _STATE.match(line.rstrip("\n"))
            if not m:
                continue
            k, v = m.group(1), m.group(2).strip()
            if v in ("TRUE", "FALSE"):
                cur[k] = v == "TRUE"
            elif v.startswith("<<"):
                cur[k] = [int(x) for x in re.findall(r"-?\d+", v)]
            else:
                raise core.MachineryError("unexpected value in model dump: %r" % line)
    flush()
    return out


def unscale(v):
    return None if v < 0 else (v // proj.LSCALE if v % proj.LSCALE == 0 else v / float(proj.LSCALE))


EDITS = ("move", "prune", "graft", "swap")
ENCS = ("auto", "update", "encode")


def finish_case(case, rng, nleaves):
    """choices that the model leaves to the environment (namespace layout, rooting flag, how the encoding got current, which edit)"""
    extra = rng.choice((0, 0, 1, 1, 2)) if nleaves <= 4 else rng.choice((0, 1))
    case["ntax"] = nleaves + extra
    case["holes"] = sorted(rng.sample(range(case["ntax"] + 1), 1)) if rng.random() < 0.3 else []
    case["order"] = rng.choice(("", "", "reverse"))
    # taxa on the leaves: the first `nleaves` survivors in a random arrangement is left to `nested`
    case["rooted"] = rng.choice((True, False))
    case["rooted_tm"] = rng.choice((True, False))
    case["rooted_mrca"] = rng.choice((True, False, False))
    case["enc"] = rng.choice(ENCS)
    case["edit"] = rng.choice(EDITS)
    return case


def model_cases(ctx, states):
    cases = []
    rng = random.Random(ctx.seed * 1000003 + 14)
    for k, st in enumerate(states):
        par, lens = st["p"], st["lens"]
        nl = build.num_leaves([x - 1 for x in par])
        perm = list(range(nl))
        if rng.random() < 0.5:
            rng.shuffle(perm)
        nested = build.nested_from_parents(par, perm, lens=[unscale(v) for v in lens])
        case = {"kind": "model", "seed": ctx.seed * 7919 + k, "nleaves": nl, "nested": nested,
                "parts": ["pdm", "ndm", "tm", "mrca"] + (["cluster"] if nl >= 2 else []),
                "nj": bool(st["njok"]), "upgma": nl >= 2, "csv": nl >= 2, "upgma_csv": bool(st["ultra"]),
                "steps": nl >= 2 and k % 4 == 0, "tlc_njok": bool(st["njok"]), "tlc_ultra": bool(st["ultra"])}
        case = finish_case(case, rng, nl)
        # rotated over the dumped trees (no extra executions): a power-of-two length scale, and matrix objects with a history
        case["scale_exp"] = {1: -40, 3: -20, 5: 20}.get(k % 8, 0)
        if nl >= 2 and k % 3 == 0:
            case["hist"] = HISTS[(k // 3) % len(HISTS)]
            if case["hist"] == "more_taxa" and case["ntax"] == nl:
                case["ntax"] += 1
        cases.append(case)
    return cases


def lengths_tiny(nested, rng):
    """NJ precondition at the edge: every internal edge 1 unit, terminal edges 1024 / 2048 / 3072 units; with the
    case's scale 2**-30 the internal edges are about 1e-9 next to terminal edges of about 1e-6 .. 3e-6"""
    def rec(nd):
        nd[2] = 1024 * rng.choice((1, 2, 3)) if not nd[3] else 1
        for c in nd[3]:
            rec(c)
    rec(nested)
    return nested


def lengths_nj(nested, rng):
    """internal edges positive, terminal edges anything (choice of inputs: the precondition of the NJ clause by construction)"""
    def rec(nd):
        nd[2] = rng.choice((None, 0, 1, 2, 3)) if not nd[3] else rng.choice((1, 2, 3))
        for c in nd[3]:
            rec(c)
    rec(nested)
    return nested


def lengths_ultrametric(nested, rng):
    """integer node heights, edge = parent height - child height (ultrametric by construction; some zero-length edges)"""
    def height(nd):
        if not nd[3]:
            nd.append(0)
            return 0
        h = max(height(c) for c in nd[3]) + rng.choice((0, 1, 1, 1, 2, 3))
        nd.append(h)
        return h

    def setlen(nd, ph):
        h = nd.pop()
        nd[2] = None if ph is None else ph - h
        if nd[2] == 0 and rng.random() < 0.3:
            nd[2] = None
        for c in nd[3]:
            setlen(c, h)
    height(nested)
    setlen(nested, None)
    return nested


def lengths_decimal(nested, rng):
    def rec(nd):
        nd[2] = rng.choice((0.1, 0.25, 1.0 / 3, 2.7, 0.001, 12.34567891, None, 1, 5e-05))
        for c in nd[3]:
            rec(c)
    rec(nested)
    return nested


def random_cases(ctx, n):
    cases = []
    rng = random.Random(ctx.seed * 1000003 + 1414)
    for k in range(max(8, n // 10)):
        nl = rng.randint(3, 10)
        nested = lengths_decimal(build.assign(build.random_parents(rng, nl, p_poly=0.3, p_unif=0.1), rng, list(range(nl))), rng)
        nested[2] = 0.5
        case = {"kind": "random", "flavour": "decimal", "seed": ctx.seed * 7919 + 400000 + k, "nleaves": nl, "nested": nested,
                "parts": ["csvfloat"]}
        cases.append(finish_case(case, rng, nl))
    for k in range(max(40, n // 4)):
        nl = rng.randint(4, 8)
        perm = list(range(nl))
        rng.shuffle(perm)
        nested = lengths_tiny(build.assign(build.random_parents(rng, nl, p_poly=0.15 if k % 2 else 0.0, p_unif=0.0), rng, perm), rng)
        case = {"kind": "random", "flavour": "nj_tiny", "seed": ctx.seed * 7919 + 450000 + k, "nleaves": nl, "nested": nested,
                "parts": ["pdm", "cluster"], "nj": True, "upgma": False, "csv": True, "upgma_csv": False, "steps": False}
        case = finish_case(case, rng, nl)
        case["scale_exp"] = -30
        cases.append(case)
    for k in range(n):
        flavour = ("any", "nj", "ultra", "nj_binary")[k % 4]
        nl = rng.randint(6, 12)
        if flavour == "nj_binary":
            shape = build.random_parents(rng, nl, p_poly=0.0, p_unif=0.0)
        else:
            shape = build.random_parents(rng, nl, p_poly=0.3, p_unif=0.12)
        perm = list(range(nl))
        rng.shuffle(perm)
        nested = build.assign(shape, rng, perm)
        if flavour in ("nj", "nj_binary"):
            lengths_nj(nested, rng)
        elif flavour == "ultra":
            lengths_ultrametric(nested, rng)
        case = {"kind": "random", "flavour": flavour, "seed": ctx.seed * 7919 + 500000 + k, "nleaves": nl, "nested": nested,
                "parts": ["pdm", "ndm", "tm", "mrca", "cluster"],
                "nj": flavour in ("nj", "nj_binary"), "upgma": flavour == "ultra" or nl <= 8, "csv": True,
                "upgma_csv": flavour == "ultra", "steps": nl <= 8}
        case = finish_case(case, rng, nl)
        case["scale_exp"] = (0, -40, 0, 20, -20, 0)[k % 6]
        if k % 3 == 1:
            case["hist"] = HISTS[(k // 3) % len(HISTS)]
            if case["hist"] == "more_taxa" and case["ntax"] == nl:
                case["ntax"] += 1
        cases.append(case)
    return cases


def run(ctx):
    dump = os.path.join(ctx.work, "dist.dump")
    cfg = "MC_DistMatrix_quick.cfg" if ctx.quick else "MC_DistMatrix_thorough.cfg"
    ctx.model("MC_DistMatrix", cfg, env={"C14_SEED": str(ctx.seed)}, extra=("-dump", dump), heap="2g")
    states = read_model_dump(dump)
    os.remove(dump)
    cases = model_cases(ctx, states)
    del states
    nmodel = len(cases)
    nrand = 160 if ctx.quick else 3000
    cases.extend(random_cases(ctx, nrand))
    stats = {"nj": 0, "upgma": 0, "ultra": 0, "nj_tlc": 0, "events": 0}
    # drive and judge in chunks: the core keeps every judged event for replay files; only the
    # events of traces with a failing verdict are needed for that, the rest is dropped per chunk
    chunk = 9000
    for lo in range(0, len(cases), chunk):
        driven = ctx.drive(cases[lo:lo + chunk], run_case)
        ctx.judge("Trace_DistMatrix", driven, batch=8000, heap="1g")
        summarise_chunk(ctx, driven, stats, first=(lo == 0))
        failing = set(v["tid"] for v in ctx.verdicts)
        ctx.events = [e for e in ctx.events if e["tid"] in failing]
        del driven
    finish_summary(ctx, stats, nmodel, nrand)


DRIFT_SINGLE = "pdm.mrca(t, t) on a tree with a single leaf raises (no pair of leaf taxa; outside the property)"


def summarise_chunk(ctx, driven, stats, first):
    import hashlib
    for case, evs in driven:
        for e in evs:
            g = e["g"]
            if g["n"] - sum(1 for k in g["kids"] if k) >= 3:
                h = hashlib.md5(core.dumps([g["par"], g["len"], g["tx"], g["rooted"]]).encode()).hexdigest()[:16]
                ctx.add_nontrivial("%s/%s/%s/%s" % (e["action"], e.get("src", ""), e.get("enc", ""), h))
            if e["action"] == "Nj":
                stats["nj"] += 1
            elif e["action"] == "Upgma":
                stats["upgma"] += 1
        stats["events"] += len(evs)
        if case.get("tlc_ultra") or case.get("flavour") == "ultra":
            stats["ultra"] += 1
        if case.get("tlc_njok"):
            stats["nj_tlc"] += 1
        if evs and evs[0].get("single_leaf_mrca_raised"):
            ctx.drift[DRIFT_SINGLE] = ctx.drift.get(DRIFT_SINGLE, 0) + 1
    if first:
        for i in (3, len(driven) // 2):
            if 0 <= i < len(driven) and driven[i][1]:
                ctx.add_sample({"case": driven[i][0], "event": driven[i][1][0]})
    elif driven and driven[-1][1]:
        ctx.add_sample({"case": driven[-1][0], "event": driven[-1][1][-1]}, limit=3)


def finish_summary(ctx, stats, nmodel, nrand):
    ctx.rule = ("every tree of TLC's dump of MC_DistMatrix (%d trees; see exhaustive_domain) built as a real Tree: "
                "phylogenetic_distance_matrix (all ordered leaf pairs, distances(), mean pairwise / nearest taxon for all taxa and "
                "for every taxon subset via filter_fn), node_distance_matrix (all node pairs), treemeasure.patristic_distance, "
                "Tree.mrca for every non-empty subset of the namespace in the three argument forms with a current encoding, with "
                "is_bipartitions_updated=False after a structural edit, and again afterwards; nj_tree where TLC found the NJ "
                "precondition, upgma_tree everywhere (tree clause where TLC found the tree ultrametric), both also on the matrix "
                "written to CSV and read back; + %d seeded random trees with 6-12 leaves (arbitrary / positive internal / "
                "ultrametric lengths) and %d with non-dyadic lengths for the CSV round trip.  distinct_nontrivial = distinct "
                "(call kind, variant, projected tree) with at least 3 leaves" % (nmodel, nrand, max(8, nrand // 10)))
    ctx.exhaustive = True
    ctx.extra["exhaustive_domain"] = (
        ("quick: all ordered trees with <= 5 nodes x all edge-length vectors over {None,0,1,2,3}; all ordered trees with 6-7 nodes, <= 4 leaves "
         "and no unifurcation x all vectors over {None,1,2}" if ctx.quick else
         "thorough: all ordered trees with <= 5 nodes and all with 6 nodes and no unifurcation x all edge-length vectors over {None,0,1,2,3}; "
         "all ordered trees with 7-8 nodes, <= 5 leaves and no unifurcation x all vectors over {None,1,2}") +
        "; additionally (not exhaustive) TLC-drawn length vectors over {None,0,1,2,3} for every larger shape with <= 1 unifurcation "
        "(up to 7 / 9 nodes); leaf labelling, namespace layout, rooting flag, encoding route and edit are seeded choices of the driver")
    ctx.extra["nj_results_judged"] = stats["nj"]
    ctx.extra["upgma_results_judged"] = stats["upgma"]
    ctx.extra["model_trees_with_nj_precondition"] = stats["nj_tlc"]
    ctx.extra["ultrametric_input_trees"] = stats["ultra"]
    ctx.assumptions.append("NJ / UPGMA branch lengths are floats; each is represented as the exact rational with denominator <= 10^4 "
                           "within 1e-12 (vlib/proj.rat) and TLC decides the equalities on these rationals (DESIGN 3.2, 5)")
    ctx.assumptions.append("clause C14.UPGMAMean (every UPGMA join stands at half the arithmetic mean of the leaf distances between the "
                           "two clusters) is also judged on additive non-ultrametric input (<= 8 leaves): it is the definition of UPGMA and "
                           "is what distinguishes size-weighted averaging, which no ultrametric input can")
    ctx.assumptions.append("Tree.mrca / treemeasure are judged on the tree state at return (an implicit encode_bipartitions of an "
                           "unrooted tree collapses its basal bifurcation)")
    ctx.extra["rotated_dimensions"] = (
        "over the dumped and random trees (no extra executions): all edge lengths of a case times 2^-40 / 2^-20 / 2^20 (3 of 8 model cases; "
        "the projection divides the scale out exactly, TLC sees the same integers); every third case builds its matrices as ONE "
        "PhylogeneticDistanceMatrix / NodeDistanceMatrix object compiled from another tree first (children rotated + new lengths, rerooted, "
        "one more taxon, new lengths, unrelated tree on the same taxa) and then re-compiled with compile_from_tree() from the case's tree; "
        "+ NJ cases with every internal edge 2^-30 next to terminal edges 1024..3072 times longer (precondition 'positive internal lengths' at the edge)")
    ctx.assumptions.append("normalisation by tree size, path_edges (is_store_path_edges), shuffle_taxa and the standardized effect sizes "
                           "are not part of the property and are not judged")


def replay(ctx, rec):
    driven = ctx.drive([rec["case"]], run_case, parallel=False)
    ctx.judge("Trace_DistMatrix", driven)
    ctx.rule = "replay of one recorded case"
    ctx.add_sample({"case": rec["case"]})
