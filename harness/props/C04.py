"""C04 - tree-to-tree distances equal their split-set definitions and are true metrics.

spec/TreeCompare.tla defines RF, false positives/negatives, missing bipartitions, weighted RF (L1)
and squared Euclidean (L2^2) over the split sets of the CURRENT structure, plus re-drawings and the
staleness machine's cache operators.
 M1  MC_TreeCompare (TLC): metric axioms on all pairs / triples of small trees over one leaf set;
     the dumped pairs are built as real trees and every public function is called in both orders.
 M2  MC_TreeCompareHist (TLC): every history of edits without update_bipartitions, encodings and
     distance calls up to a depth; every transition of the dumped graph is replayed on real trees.
 M3  Trace_TreeCompare (TLC) judges every logged call: definitions, symmetry of value and of
     definedness, triangle inequality on observed triples, different-namespace refusal, default
     arguments reflect the current structure; plus seeded random pairs / triples / histories on
     trees with 6-12 leaves.
The Python side only builds, calls, projects and logs.
"""
import os
import random
import warnings

from vlib import core, tlaval, proj, build
from vlib import x_c04 as X

ID = "C04"
LENS = (0.0, 0.25, 0.5, 1.0, 1.0, 2.0, 3.0)
HEAP = "2g"          # the models and trace batches are small; a modest heap keeps the JVMs out of the way


# ---------------------------------------------------------------------------------- events
def pair_event(tc, t1, t2, fam, rot=0, sexp=0):
    """every public function in both argument orders on the same two objects; the order of the functions
    rotates with the case so that each of them is, on some inputs, the first to see the trees.
    sexp: all lengths of the case were multiplied by 2**sexp; graphs and results are logged in that unit"""
    table = X.api_table(tc)
    rot = rot % len(X.ALL_APIS)
    apis = X.ALL_APIS[rot:] + X.ALL_APIS[:rot]
    ev = {"action": "Pair", "fam": fam, "sexp": sexp, "g1": X.graph(t1, sexp), "g2": X.graph(t2, sexp), "calls": []}
    for api in apis:
        ev["calls"].append(X.call(table, api, t1, t2, 1, sexp=sexp))
        ev["calls"].append(X.call(table, api, t2, t1, 2, sexp=sexp))
    return ev


WEIGHTED_APIS = X.KIND_APIS["wrf"] + X.KIND_APIS["euc"]


def big_pair_event(tc, t1, t2, rot=0):
    """large lengths with small differences (every edge 2**32 longer): the weighted functions, both orders"""
    table = X.api_table(tc)
    rot = rot % len(WEIGHTED_APIS)
    ev = {"action": "BigPair", "g1": X.graph_big(t1), "g2": X.graph_big(t2), "calls": []}
    for api in WEIGHTED_APIS[rot:] + WEIGHTED_APIS[:rot]:
        ev["calls"].append(X.call(table, api, t1, t2, 1, big=True))
        ev["calls"].append(X.call(table, api, t2, t1, 2, big=True))
    return ev


def triple_event(tc, ts, sexp=0):
    table = X.api_table(tc)
    ev = {"action": "Triple", "sexp": sexp, "g1": X.graph(ts[0], sexp), "g2": X.graph(ts[1], sexp), "g3": X.graph(ts[2], sexp),
          "calls": []}
    for pr, (i, j) in ((12, (0, 1)), (23, (1, 2)), (13, (0, 2))):
        for api in ("symmetric_difference", "weighted_robinson_foulds_distance", "euclidean_distance"):
            ev["calls"].append(X.call(table, api, ts[i], ts[j], 1, pr=pr, sexp=sexp))
    return ev


def ns_event(dendropy, tc, g1, g2, ntaxa, variant):
    """the same two trees, but built over two distinct namespace objects with equal labels: every function,
    both argument orders, default / explicit False / True flag, while none, one and both trees are encoded"""
    ns1, taxa1 = build.make_namespace(dendropy, ntaxa)
    if variant == "shared_taxa":
        ns2 = dendropy.TaxonNamespace(ns1)          # another namespace object holding the same Taxon objects
        taxa2 = taxa1
    else:
        ns2, taxa2 = build.make_namespace(dendropy, ntaxa)
    t1, _ = X.build(dendropy, g1, ns1, taxa1)
    t2, _ = X.build(dendropy, g2, ns2, taxa2)
    table = X.api_table(tc)
    ev = {"action": "NsRefusal", "variant": variant, "g1": X.graph(t1), "g2": X.graph(t2), "calls": []}
    flag_apis = set(X.FLAG_APIS.values()) | set(["unweighted_robinson_foulds_distance"])
    for stage in (0, 1, 2):
        if stage == 1:
            t1.encode_bipartitions()
        elif stage == 2:
            t2.encode_bipartitions()
        for api in X.ALL_APIS:
            for fcode, flag in ((0, None), (1, False), (2, True)):
                if fcode and api not in flag_apis:
                    continue
                for o, (a, b) in ((1, (t1, t2)), (2, (t2, t1))):
                    enc = int(t1.bipartition_encoding is not None) + int(t2.bipartition_encoding is not None)
                    c = X.call(table, api, a, b, o, flag=flag)
                    ev["calls"].append({"api": api, "ord": o, "flag": fcode, "enc": enc, "raised": c["raised"]})
    return ev


class Hist(object):
    """two real trees and the logging of one history on them"""

    def __init__(self, dendropy, tc, g1, g2, ntaxa, holes=(), diff_ns=False):
        self.d = dendropy
        self.table = X.api_table(tc)
        self.ns, self.taxa = build.make_namespace(dendropy, ntaxa, holes=holes)
        self.samens = not diff_ns
        # diff_ns: the second tree lives in another namespace object with the same labels and bits
        ns2, taxa2 = build.make_namespace(dendropy, ntaxa, holes=holes) if diff_ns else (self.ns, self.taxa)
        self.t = [None, None]
        self.nodes = [None, None]
        self.t[0], self.nodes[0] = X.build(dendropy, g1, self.ns, self.taxa)
        self.t[1], self.nodes[1] = X.build(dendropy, g2, ns2, taxa2)
        self.evs = []
        self.skipped = 0

    def state(self, a, b, c, d):
        return {a: X.graph(self.t[0]), b: X.graph(self.t[1]), c: X.cache(self.t[0]), d: X.cache(self.t[1])}

    def log(self, action, extra, thunk):
        ev = {"action": action}
        ev.update(extra)
        ev.update(self.state("g1", "g2", "c1", "c2"))
        raised = ""
        with warnings.catch_warnings():
            warnings.simplefilter("ignore")
            try:
                out = thunk()
            except Exception as ex:
                raised, out = type(ex).__name__, None
        if action == "Dist":
            ev["call"] = out
            ev["samens"] = self.samens
        else:
            ev["raised"] = raised
        ev.update(self.state("h1", "h2", "d1", "d2"))
        self.evs.append(ev)

    # -- structure helpers (raw pointers only)
    def attached(self, i, nd):
        seed = self.t[i]._seed_node
        k = 0
        while nd is not None and k < 1000:
            if nd is seed:
                return True
            nd = nd._parent_node
            k += 1
        return False

    def in_subtree(self, nd, top):
        k = 0
        while nd is not None and k < 1000:
            if nd is top:
                return True
            nd = nd._parent_node
            k += 1
        return False

    def regraft_ok(self, i, x, y):
        return (x is not None and y is not None and x._parent_node is not None and self.attached(i, x) and self.attached(i, y)
                and len(y._child_nodes) > 0 and not self.in_subtree(y, x) and y is not x._parent_node
                and len(x._parent_node._child_nodes) >= 2)

    def all_nodes(self, i):
        out, st = [], [self.t[i]._seed_node]
        while st:
            nd = st.pop()
            out.append(nd)
            st.extend(reversed(nd._child_nodes))
        return out

    # -- operations
    def swap_taxa(self, i, a, b):
        la = [nd for nd in self.all_nodes(i) if nd.taxon is a]
        lb = [nd for nd in self.all_nodes(i) if nd.taxon is b]
        if len(la) != 1 or len(lb) != 1:
            self.skipped += 1
            return

        def go():
            la[0].taxon, lb[0].taxon = b, a
        self.log("Edit", {"op": "SwapTaxa", "i": i + 1}, go)

    def regraft(self, i, x, y):
        if not self.regraft_ok(i, x, y):
            self.skipped += 1
            return
        self.log("Edit", {"op": "Regraft", "i": i + 1}, lambda: y.add_child(x._parent_node.remove_child(x)))

    def leaves(self, i):
        return [nd for nd in self.all_nodes(i) if not nd._child_nodes]

    def set_rooted_both(self, r):
        for i in (0, 1):
            tree = self.t[i]
            self.log("Edit", {"op": "SetRooted", "i": i + 1}, lambda: setattr(tree, "is_rooted", bool(r)))

    def reroot(self, i, nd):
        """reroot_at_node on tree i; the other tree is declared rooted as well (both keep one rooting state)"""
        tree = self.t[i]
        if nd is None or not nd._child_nodes or nd._parent_node is None or not self.attached(i, nd):
            self.skipped += 1
            return
        self.log("Edit", {"op": "RerootAtNode", "i": i + 1}, lambda: tree.reroot_at_node(nd, update_bipartitions=False))
        other = self.t[1 - i]
        if not other.is_rooted:
            self.log("Edit", {"op": "SetRooted", "i": 2 - i}, lambda: setattr(other, "is_rooted", True))

    def prune_both(self, taxon):
        """Tree.prune_taxa([taxon]) on both trees (one leaf set before and after); returns the pruned leaf nodes"""
        hit = []
        for i in (0, 1):
            lv = [nd for nd in self.leaves(i) if nd.taxon is taxon]
            if len(lv) != 1 or len(self.leaves(i)) < 4 or len(lv[0]._parent_node._child_nodes) < 2:
                self.skipped += 1
                return None
            hit.append(lv[0])
        for i in (0, 1):
            tree = self.t[i]
            self.log("Edit", {"op": "PruneTaxon", "i": i + 1}, lambda: tree.prune_taxa([taxon]))
        return hit

    def edit(self, i, op, thunk):
        self.log("Edit", {"op": op, "i": i + 1}, thunk)

    def encode(self, i, how="encode_bipartitions"):
        self.log("Encode", {"i": i + 1, "how": how}, getattr(self.t[i], how))

    def dist(self, kind, flag, ord_=1, pick=0):
        """flag=True: is_bipartitions_updated=True; otherwise default arguments through any entry point of the kind"""
        a, b = (self.t[0], self.t[1]) if ord_ == 1 else (self.t[1], self.t[0])
        api = X.FLAG_APIS[kind] if flag else X.KIND_APIS[kind][pick % len(X.KIND_APIS[kind])]
        self.log("Dist", {}, lambda: X.call(self.table, api, a, b, ord_, flag=True if flag else None, with_flag=True))


# ---------------------------------------------------------------------------------- cases
def _random_tree_graph(rng, nl, taxa_idx, rooted, p_poly=0.3, p_unif=0.1, none_p=0.0, root_len_p=0.25):
    nested = build.assign(build.random_parents(rng, nl, p_poly=p_poly, p_unif=p_unif), rng, taxa_idx, lengths=LENS)
    if rng.random() >= root_len_p:
        nested[2] = None                               # usually the seed edge has no length
    g = X.graph_of_nested(nested, rooted)
    if none_p > 0:
        for x in range(1, g["n"]):
            if rng.random() < none_p:
                g["len"][x] = -1
    return g


def run_case(case):
    import dendropy
    from dendropy.calculate import treecompare as tc
    from dendropy.utility import deprecate
    deprecate.configure_deprecation_warning_behavior("ignore")
    kind = case["kind"]
    rng = random.Random(case.get("seed", 0))
    if kind == "pair":
        ns, taxa = build.make_namespace(dendropy, case["ntaxa"], holes=tuple(case.get("holes", ())))
        sexp = case.get("sexp", 0)
        t1, _ = X.build(dendropy, case["g1"], ns, taxa, sexp=sexp)
        t2, _ = X.build(dendropy, case["g2"], ns, taxa, sexp=sexp)
        return [pair_event(tc, t1, t2, case["fam"], case.get("rot", 0), sexp)]
    if kind == "bigpair":
        ns, taxa = build.make_namespace(dendropy, case["ntaxa"], holes=tuple(case.get("holes", ())))
        t1, _ = X.build(dendropy, case["g1"], ns, taxa, big=True)
        t2, _ = X.build(dendropy, case["g2"], ns, taxa, big=True)
        return [big_pair_event(tc, t1, t2, case.get("rot", 0))]
    if kind == "redraw_api":
        # t2 = t1 redrawn through the library: children shuffled and (unrooted) the seed moved with reseed_at
        ns, taxa = build.make_namespace(dendropy, case["ntaxa"], holes=tuple(case.get("holes", ())))
        t1, _ = X.build(dendropy, case["g1"], ns, taxa)
        t2, nodes2 = X.build(dendropy, case["g1"], ns, taxa)
        for nd in list(nodes2.values()):
            if len(nd._child_nodes) > 1 and rng.random() < 0.7:
                ch = list(nd._child_nodes)
                rng.shuffle(ch)
                nd.set_child_nodes(ch)
        if case["g1"]["rooted"] != 1:
            inner = [nd for nd in nodes2.values() if nd._child_nodes and nd._parent_node is not None]
            if inner:
                with warnings.catch_warnings():
                    warnings.simplefilter("ignore")
                    t2.reseed_at(rng.choice(inner), update_bipartitions=False, suppress_unifurcations=rng.random() < 0.5,
                                 collapse_unrooted_basal_bifurcation=rng.random() < 0.5)
        return [pair_event(tc, t1, t2, "redraw_api", case.get("rot", 0))]
    if kind == "triple":
        ns, taxa = build.make_namespace(dendropy, case["ntaxa"], holes=tuple(case.get("holes", ())))
        sexp = case.get("sexp", 0)
        ts = [X.build(dendropy, g, ns, taxa, sexp=sexp)[0] for g in case["gs"]]
        return [triple_event(tc, ts, sexp)]
    if kind == "ns":
        return [ns_event(dendropy, tc, case["g1"], case["g2"], case["ntaxa"], case["variant"])]
    if kind == "path":
        h = Hist(dendropy, tc, case["g1"], case["g2"], case["ntaxa"], diff_ns=case.get("diff_ns", False))
        for name, args in case["path"]:
            if name == "SwapTaxa":
                i = args[0] - 1
                h.swap_taxa(i, h.taxa[args[1] - 1], h.taxa[args[2] - 1])
            elif name == "Regraft":
                i = args[0] - 1
                h.regraft(i, h.nodes[i].get(args[1]), h.nodes[i].get(args[2]))
            elif name == "SetRooted":
                h.set_rooted_both(args[0])
            elif name == "Reroot":
                i = args[0] - 1
                if h.t[i].is_rooted:
                    h.reroot(i, h.nodes[i].get(args[1]))
                else:
                    h.skipped += 1
            elif name == "PruneTaxon":
                hit = h.prune_both(h.taxa[args[0] - 1])
                if hit:
                    # the model renumbers: ids above the removed leaf shift down
                    for i in (0, 1):
                        x = [k for k, nd in h.nodes[i].items() if nd is hit[i]]
                        if x:
                            h.nodes[i] = dict(((k - 1 if k > x[0] else k), nd) for k, nd in h.nodes[i].items() if k != x[0])
            elif name == "Encode":
                h.encode(args[0] - 1)
            elif name == "Dist":
                h.dist(args[0], args[1], pick=case.get("rot", 0))
            else:
                raise core.MachineryError("unknown model action %s" % name)
        if h.evs:
            h.evs[-1]["skipped"] = h.skipped
        return h.evs
    if kind == "history":
        return random_history(dendropy, tc, case, rng)
    raise core.MachineryError("unknown case kind %r" % kind)


def random_history(dendropy, tc, case, rng):
    h = Hist(dendropy, tc, case["g1"], case["g2"], case["ntaxa"], holes=tuple(case.get("holes", ())),
             diff_ns=case.get("diff_ns", False))
    kinds = ("rf", "fpn", "missing", "wrf", "euc")
    if case.get("diff_ns"):
        # two namespace objects: only encodings and (refused) distance calls, every flag value
        for _ in range(case["nops"]):
            if rng.random() < 0.3:
                h.encode(rng.randrange(2))
            else:
                h.dist(rng.choice(kinds), rng.random() < 0.5, rng.choice((1, 2)), pick=rng.randrange(6))
        return h.evs
    for _ in range(case["nops"]):
        i = rng.randrange(2)
        # edits of the rooting state / the leaf set (of both trees, one after the other: they keep one
        # rooting state and one leaf set at every distance call)
        r0 = rng.random()
        if r0 < 0.05:
            h.set_rooted_both(not h.t[0].is_rooted)
            continue
        if r0 < 0.09:
            cand = [nd for nd in h.all_nodes(i) if nd._child_nodes and nd._parent_node is not None]
            if cand and len(h.t[i]._seed_node._child_nodes) >= 2:
                h.reroot(i, rng.choice(cand))
            continue
        if r0 < 0.13:
            lv = h.leaves(i)
            if len(lv) > 4:
                h.prune_both(rng.choice(lv).taxon)
            continue
        tree = h.t[i]
        nodes = h.all_nodes(i)
        inner = [nd for nd in nodes if nd._child_nodes and nd._parent_node is not None]
        leaves = [nd for nd in nodes if not nd._child_nodes]
        r = rng.random()
        if r < 0.30:
            kind = rng.choice(kinds)
            h.dist(kind, False, rng.choice((1, 1, 2)), pick=rng.randrange(6))
            if kind in ("wrf", "euc") and rng.random() < 0.5:
                # both trees were just encoded by the call: the claim is_bipartitions_updated=True is true
                h.dist(rng.choice(("wrf", "euc")), True, rng.choice((1, 2)))
        elif r < 0.36:
            h.dist(rng.choice(kinds), True, 1)
        elif r < 0.44:
            h.encode(i, rng.choice(("encode_bipartitions", "update_bipartitions")))
        elif r < 0.60:
            cand = [nd for nd in nodes if nd._parent_node is not None]
            x = rng.choice(cand)
            ys = [nd for nd in nodes if h.regraft_ok(i, x, nd)]
            if ys:
                h.regraft(i, x, rng.choice(ys))
        elif r < 0.70 and len(leaves) >= 2:
            a, b = rng.sample(leaves, 2)
            h.swap_taxa(i, a.taxon, b.taxon)
        elif r < 0.78 and inner:
            nd = rng.choice(inner)
            h.edit(i, "CollapseEdge", lambda: nd.edge.collapse(adjust_collapsed_head_children_edge_lengths=rng.random() < 0.5))
        elif r < 0.84:
            nd = rng.choice([x for x in nodes if x._parent_node is not None])
            v = rng.choice(LENS)
            h.edit(i, "SetLength", lambda: setattr(nd.edge, "length", v))
        elif r < 0.90 and inner and len(tree._seed_node._child_nodes) >= 2:
            nd = rng.choice(inner)
            if tree.is_rooted:
                h.edit(i, "RerootAtNode", lambda: tree.reroot_at_node(nd, update_bipartitions=False))
            else:
                h.edit(i, "ReseedAt", lambda: tree.reseed_at(nd, update_bipartitions=False))
        elif r < 0.95:
            nd = rng.choice([x for x in nodes if len(x._child_nodes) > 1])
            ch = list(nd._child_nodes)
            rng.shuffle(ch)
            h.edit(i, "ShuffleChildren", lambda: nd.set_child_nodes(ch))
        else:
            cand = [nd for nd in inner if len(nd._parent_node._child_nodes) >= 2]
            if cand and len(leaves) > 4:
                nd = rng.choice(cand)
                # both trees keep one leaf set: prune nothing, but move the subtree to the seed
                if h.regraft_ok(i, nd, tree._seed_node):
                    h.regraft(i, nd, tree._seed_node)
    h.dist("fpn", False)
    h.dist("wrf", False, 2)
    h.dist("missing", False)
    return h.evs


# ---------------------------------------------------------------------------------- orchestration
def _strip(g):
    return {k: g[k] for k in ("n", "seed", "kids", "par", "eh", "eid", "tx", "len", "lab", "rooted")}


def model_pairs(ctx, cfg):
    dump = os.path.join(ctx.work, "c04_pairs.dump")
    ctx.model("MC_TreeCompare", cfg, extra=("-dump", dump), workers=8, heap=HEAP)
    cases, nfam = [], {}
    for st in tlaval.read_dump(dump):
        if st["stage"] != 2:
            continue
        nfam[st["fam"]] = nfam.get(st["fam"], 0) + 1
        nt = max(max(st["t1"]["tx"]), max(st["t2"]["tx"]))
        cases.append({"kind": "pair", "fam": st["fam"], "ntaxa": nt, "g1": _strip(st["t1"]), "g2": _strip(st["t2"]),
                      "rot": len(cases)})
    os.remove(dump)
    return cases, nfam


def model_paths(ctx, cfg):
    dot = os.path.join(ctx.work, "c04_hist.dot")
    ctx.model("MC_TreeCompareHist", cfg, extra=("-dump", "dot,actionlabels", dot), workers=8, heap=HEAP)
    inits, edges, states = tlaval.read_dot(dot)
    paths, root = tlaval.shortest_paths(inits, edges)
    cases = []
    for (u, v, name, args) in edges:
        if u not in paths:
            continue
        s0 = states[root[u]]
        cases.append({"kind": "path", "ntaxa": 4, "g1": _strip(s0["t1"]), "g2": _strip(s0["t2"]), "rot": len(cases),
                      "diff_ns": s0["ns"] == "diff",
                      "path": [[a, list(b)] for a, b in paths[u]] + [[name, list(args)]]})
    os.remove(dot)
    return cases, len(edges)


def run_models(ctx, tier):
    """the TLC model runs are independent: run them side by side (each is mostly one JVM start plus
    the evaluation of the constant tree domains)"""
    import time
    from concurrent.futures import ThreadPoolExecutor
    jobs = [
        # metric axioms on all pairs (dumped for the replay) and on all triples of small trees
        lambda: model_pairs(ctx, "MC_TreeCompare_%s.cfg" % tier),
        lambda: ctx.model("MC_TreeCompare", "MC_TreeCompare_triples_%s.cfg" % tier, workers=8, heap=HEAP),
        # F04 as shipped: TLC must find the asymmetry of definedness
        lambda: ctx.model("MC_TreeCompare", "AsShipped_TreeCompare.cfg", expect_violation="DefinedSymmetric", count=False, workers=2, heap=HEAP),
        # second open finding as shipped: the first encoding of an unrooted tree with a hidden basal bifurcation
        lambda: ctx.model("MC_TreeCompare", "AsShipped_TreeCompare_basal.cfg", expect_violation="FirstCallExact", count=False, workers=2, heap=HEAP),
        # staleness machine (dumped graph for the replay); "second tree not re-encoded" must violate DefaultFresh
        lambda: model_paths(ctx, "MC_TreeCompareHist_%s.cfg" % tier),
        lambda: ctx.model("MC_TreeCompareHist", "Mutant_TreeCompareHist.cfg", expect_violation="DefaultFresh", count=False, workers=2, heap=HEAP),
        # "namespace check behind the is_bipartitions_updated fast path" must violate DiffNsRefused
        lambda: ctx.model("MC_TreeCompareHist", "Seeded_TreeCompareHist_ns.cfg", expect_violation="DiffNsRefused", count=False, workers=2, heap=HEAP),
    ]

    if tier == "thorough":
        # all pairs of trees with 5 leaves (model only; the replayed domain is the dump of the first run)
        jobs.append(lambda: ctx.model("MC_TreeCompare", "MC_TreeCompare_k5_thorough.cfg", workers=8, heap=HEAP))
        # histories with two edits (model only; the replayed graph is the one-edit model)
        jobs.append(lambda: ctx.model("MC_TreeCompareHist", "MC_TreeCompareHist_deep_thorough.cfg", workers=8, heap=HEAP))

    def start(k):
        time.sleep(0.4 * k)          # distinct metadir time stamps
        return jobs[k]()
    with ThreadPoolExecutor(len(jobs)) as ex:
        futs = [ex.submit(start, k) for k in range(len(jobs))]
        res = [f.result() for f in futs]
    return res[0], res[4]


SEXPS = (-50, -20, 20, 40)


def _all_lengths(g):
    return all(v >= 0 for x, v in enumerate(g["len"]) if x + 1 != g["seed"])


def _relength(g, k):
    """the same drawing with other small lengths (a different weighted tree on the same splits)"""
    return dict(g, len=[v if v < 0 else (v + 4 * ((x * (k + 1) + k) % 3)) % 16 for x, v in enumerate(g["len"])])


def magnitude_cases(pair_cases, every):
    """the magnitude dimension over TLC's dumped pairs with complete lengths: the same pair with all lengths
    multiplied by 2**-50, 2**-20, 2**20, 2**40, and as large lengths (2**32 + quarters) with small differences,
    also against the same drawing with other small parts"""
    out = []
    full = [c for c in pair_cases if c["fam"] in ("top", "unary", "redraw") and _all_lengths(c["g1"]) and _all_lengths(c["g2"])]
    for k, c in enumerate(full):
        if k % every == 0:
            out.append(dict(c, fam=c["fam"] + "*2^%d" % SEXPS[(k // every) % 4], sexp=SEXPS[(k // every) % 4]))
        if k % (2 * every) == 1:
            out.append({"kind": "bigpair", "ntaxa": c["ntaxa"], "g1": c["g1"], "g2": c["g2"], "rot": k})
        if k % (4 * every) == 2:
            out.append({"kind": "bigpair", "ntaxa": c["ntaxa"], "g1": c["g1"], "g2": _relength(c["g1"], k), "rot": k})
            out.append({"kind": "bigpair", "ntaxa": c["ntaxa"], "g1": c["g2"], "g2": c["g2"], "rot": k})
    return out


def random_cases(ctx, npair, ntriple, nhist, nns):
    rng = random.Random(ctx.seed * 7919 + 4)
    cases = []

    def two(nl, rooted, none_p=0.0, moves=None):
        ntaxa = nl + rng.randint(0, 2)
        holes = tuple(sorted(rng.sample(range(ntaxa + 2), 2))) if rng.random() < 0.4 else ()
        idx = rng.sample(range(ntaxa), nl)
        g1 = _random_tree_graph(rng, nl, idx, rooted, none_p=none_p)
        idx2 = list(idx)
        rng.shuffle(idx2)
        g2 = _random_tree_graph(rng, nl, idx2, rooted, none_p=none_p)
        return ntaxa, holes, g1, g2

    for k in range(npair):
        nl = rng.randint(6, 12)
        rooted = rng.choice((1, 1, 0, 0, -1))
        none_p = rng.choice((0.0, 0.0, 0.0, 0.15, 1.0))
        ntaxa, holes, g1, g2 = two(nl, rooted, none_p)
        if rng.random() < 0.3:
            # lengths missing in one tree only
            g2 = dict(g2, len=[-1 if x == -1 else max(x, 0) for x in g2["len"]])
            if rng.random() < 0.5:
                g1 = dict(g1, len=[-1] * g1["n"])
        cases.append({"kind": "pair", "fam": "random", "ntaxa": ntaxa, "holes": holes, "g1": g1, "g2": g2,
                      "seed": ctx.seed * 1000003 + k, "rot": k, "sexp": SEXPS[(k // 3) % 4] if k % 3 == 0 else 0})
        if k % 3 == 1 and _all_lengths(g1) and _all_lengths(g2):
            cases.append({"kind": "bigpair", "ntaxa": ntaxa, "holes": holes, "g1": g1, "g2": g2 if k % 2 else _relength(g1, k), "rot": k})
        cases.append({"kind": "redraw_api", "ntaxa": ntaxa, "holes": holes, "g1": g1, "seed": ctx.seed * 1000003 + 500000 + k,
                      "rot": k + 5})
    for k in range(ntriple):
        nl = rng.randint(6, 12)
        rooted = rng.choice((1, 0))
        ntaxa, holes, g1, g2 = two(nl, rooted)
        idx3 = [t - 1 for t in g1["tx"] if t]
        rng.shuffle(idx3)
        g3 = _random_tree_graph(rng, nl, idx3, rooted)
        cases.append({"kind": "triple", "ntaxa": ntaxa, "holes": holes, "gs": [g1, g2, g3],
                      "sexp": SEXPS[(k // 2) % 4] if k % 2 == 0 else 0})
    for k in range(nhist):
        nl = rng.randint(6, 12)
        rooted = rng.choice((1, 0))
        ntaxa, holes, g1, g2 = two(nl, rooted)
        cases.append({"kind": "history", "ntaxa": ntaxa, "holes": holes, "g1": g1, "g2": g2, "nops": 24,
                      "seed": ctx.seed * 1000003 + 900000 + k})
        if k % 10 == 0:
            cases.append({"kind": "history", "ntaxa": ntaxa, "holes": holes, "g1": g1, "g2": g2, "nops": 10, "diff_ns": True,
                          "seed": ctx.seed * 1000003 + 950000 + k})
    for k in range(nns):
        nl = rng.randint(3, 9)
        ntaxa, holes, g1, g2 = two(nl, rng.choice((1, 0)))
        cases.append({"kind": "ns", "ntaxa": ntaxa, "g1": g1, "g2": g2, "variant": ("fresh", "shared_taxa")[k % 2]})
    return cases


def run(ctx):
    q = ctx.quick
    tier = "quick" if q else "thorough"
    # 1./2. TLC on the bounded models
    (pair_cases, nfam), (path_cases, nedges) = run_models(ctx, tier)
    # 3. seeded random drivers on larger trees
    rnd = random_cases(ctx, *((60, 40, 60, 12) if q else (2500, 1500, 1500, 200)))
    ns_small = [{"kind": "ns", "ntaxa": c["ntaxa"], "g1": c["g1"], "g2": c["g2"], "variant": ("fresh", "shared_taxa")[k % 2]}
                for k, c in enumerate(pair_cases[::max(1, len(pair_cases) // (40 if q else 400))])]
    mag = magnitude_cases(pair_cases, 8 if q else 1)
    driven = ctx.drive(pair_cases + mag + path_cases + rnd + ns_small, run_case)
    ctx.judge("Trace_TreeCompare", driven, batch=1500 if q else 4000, heap=HEAP)
    skipped = 0
    for case, evs in driven:
        for e in evs:
            a = e["action"]
            skipped += e.get("skipped", 0)
            if a == "BigPair":
                ctx.add_nontrivial(["BigPair", e["g1"]["kids"], e["g1"]["tx"], e["g1"]["len"], e["g1"]["rooted"],
                                    e["g2"]["kids"], e["g2"]["tx"], e["g2"]["len"]])
            elif a == "Pair" and (e["g1"]["kids"] != e["g2"]["kids"] or e["g1"]["tx"] != e["g2"]["tx"] or e["g1"]["len"] != e["g2"]["len"]):
                ctx.add_nontrivial(["Pair", e.get("sexp", 0), e["g1"]["kids"], e["g1"]["tx"], e["g1"]["len"], e["g1"]["rooted"],
                                    e["g2"]["kids"], e["g2"]["tx"], e["g2"]["len"]])
            elif a == "Triple":
                ctx.add_nontrivial(["Triple", e["g1"]["par"], e["g1"]["tx"], e["g2"]["par"], e["g2"]["tx"], e["g3"]["par"], e["g3"]["tx"]])
            elif a == "Dist" and e["c1"]["has"] and e["c2"]["has"]:
                ctx.add_nontrivial(["Dist", e["call"]["api"], e["call"]["flag"], e["call"]["ord"], e["g1"]["kids"], e["g1"]["tx"],
                                    e["g2"]["kids"], e["g2"]["tx"], e["c1"]["s"], e["c2"]["s"]])
    ctx.drift["model_ops_not_applicable_on_the_real_structure"] = skipped
    ctx.rule = ("cases = every pair of TLC's dump of MC_TreeCompare (%s) x 11 public functions x both argument orders"
                " + one real execution per transition of the dumped state graph of MC_TreeCompareHist (%d transitions)"
                " + the magnitude dimension over those pairs (all lengths x 2^-50, 2^-20, 2^20, 2^40; lengths 2^32 + quarters)"
                " + seeded random pairs / API re-drawings / triples / edit-and-distance histories on trees with 6-12 leaves"
                " + different-namespace calls; distinct_nontrivial = distinct (tree pair with different drawings) Pair events,"
                " distinct triples, and distinct (function, flag, order, structures, cached encodings) distance calls made"
                " while both trees carry a cached encoding" % (", ".join("%s: %d" % kv for kv in sorted(nfam.items())), nedges))
    ctx.exhaustive = True
    ctx.extra["exhaustive_domain"] = ("pairs of MC_TreeCompare_%s.cfg (families %s) and all histories of MC_TreeCompareHist_%s.cfg"
                                      % (tier, sorted(nfam), tier))
    ctx.extra["model_transitions_replayed"] = nedges
    ctx.assumptions.append("Euclidean distance: TLC decides the exact rational sum of squared differences; the harness squares the "
                           "returned float and represents it as a rational (vlib/proj.rat, round-trip checked)")
    ctx.assumptions.append("value of the weighted distances is not judged for an unrooted tree with a bifurcating seed whose two seed "
                           "edges are not both present (the statement does not fix the length of that merged edge); definedness is")
    ctx.assumptions.append("magnitudes: powers of two are divided out exactly by the harness; for lengths 2^32 + q/4 TLC computes with pairs "
                           "<<multiples of 2^32, quarter units>> and decides the exact Euclidean value only when the large parts cancel "
                           "split by split (otherwise: zero iff same weighted tree, symmetry)")
    ctx.assumptions.append("trees have at least 3 leaves; both trees of a call share one leaf set (as the property quantifies)")
    if driven:
        ctx.add_sample({"case": driven[0][0], "calls": driven[0][1][0].get("calls", [])[:4]})
        hist = [d for d in driven if d[0]["kind"] == "history"]
        if hist:
            ctx.add_sample({"case_kind": "history", "nops": hist[0][0]["nops"],
                            "ops": [e.get("op", e["action"]) for e in hist[0][1]][:12]})


def replay(ctx, rec):
    driven = ctx.drive([rec["case"]], run_case, parallel=False)
    ctx.judge("Trace_TreeCompare", driven)
    ctx.rule = "replay of one recorded case"
    ctx.add_sample({"case": rec["case"]})
