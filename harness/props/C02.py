"""C02 - trees survive a write/read round trip through Newick, NEXUS and NeXML.

Model side (TLC): spec/NexusToken.tla (escape_nexus_token as the quoting
decision function, the tokenizer as a character-level state machine) and
spec/NewickRoundTrip.tla (tree-statement writer, reader as a pushdown machine,
taxon symbol resolution, the label-carrying NEXUS statements, NeXML id maps and
attribute protection).  MC_NexusToken checks that Tokenize(Escape(label)) is
exactly the label as one token for every label up to a length bound over the
character-class alphabet and every consistent option pair, under the intended
protect set; MC_NewickRoundTrip checks read(write(x)) = x on four bounded
instance domains.  AsShipped_* configurations select one rule as shipped each
and TLC must find the violation.

Binding: every state of both models is replayed with concrete characters on
real trees and tree lists; in addition every printable ASCII character, TAB and
a sample of non-ASCII letters in the contexts c, ca, ac, aca as taxon label and
as internal node label, and seeded random instances (labels up to 12
characters, trees up to 10 leaves, lists of 0-4 trees).  Each real round trip
is one event; spec/Trace_TreeRoundTrip.tla (TLC) compares the projections of
source and re-read objects clause by clause.  No comparison happens in Python.
"""
import os
import random
import threading
import time

from vlib import core, tlaval, build
from vlib import x_c02 as X

ID = "C02"

COMBOS = [(False, False, False), (False, True, False), (False, True, True), (True, True, True)]   # (uu, ps, pu), consistent
LENS = [None, 0, 3, 1.5e-05, 2.5e+20, 12, 6.02e+23, 1e-10, 0.0, 7.25]
PRINTABLE = [chr(c) for c in range(32, 127)]
FULL_ALPHABET = PRINTABLE + ["\t"] + list(X.NONASCII_SAMPLE)
PLAIN = ["Pq1", "Pq2", "Pq3", "Pq4"]


def all_configs(combos=COMBOS, nexml=True):
    cfgs = []
    for (uu, ps, pu) in combos:
        cfgs.append({"schema": "newick", "o": X.opts(uu=uu, ps=ps, pu=pu)})
        cfgs.append({"schema": "nexus", "o": X.opts(uu=uu, ps=ps, pu=pu)})
        cfgs.append({"schema": "nexus", "o": X.opts(uu=uu, ps=ps, pu=pu, translate=True)})
    if nexml:
        cfgs.append({"schema": "nexml", "o": X.opts()})
    return cfgs


# ---------------------------------------------------------------------------------------------- the driver
def run_case(case):
    import dendropy
    evs = []
    inst = case["inst"]
    for cfg in case["configs"]:
        tl = X.build_instance(dendropy, inst)          # fresh objects for every round trip
        evs.append(X.event_for(dendropy, tl, cfg["schema"], cfg["o"], cfg.get("api", "treelist"), cfg.get("route", "string"),
                               tmpdir=case.get("tmpdir"), pad=cfg.get("pad")))
    if case.get("tok"):
        labels = list(case["tok"])
        combos = sorted(set((c["o"]["uu"], c["o"]["ps"], c["o"]["pu"]) for c in case["configs"] if c["schema"] != "nexml"))
        evs.extend(X.token_events(dendropy, labels, combos))
    return evs


# ---------------------------------------------------------------------------------------------- case generators
def special_label_instance(label, role, k, rng):
    """One special label among plain ones, as taxon label or as internal node label; list length, rooting and
    edge lengths vary with k (deterministic)."""
    pool = LENS[1:] if k % 2 == 0 else LENS          # every other instance has no missing length
    ln = lambda j: pool[(k + j) % len(pool)]
    ntrees = 1 + (k % 4)
    trees = []
    if role == "taxon":
        ns = [PLAIN[0], label, PLAIN[1]]
        special = None
    elif role == "both":
        ns = [PLAIN[0], label, PLAIN[1]]
        special = label
    else:
        ns = PLAIN[:3]
        special = label
    for t in range(ntrees):
        which = (k + t) % 3
        if which == 0:      # ((1,0)X,2)
            nested = [None, None, ln(0), [[special, None, ln(1), [[None, 1, ln(2), []], [None, 0, ln(3), []]]], [None, 2, ln(4), []]]]
        elif which == 1:    # (2,1,0)X  (label on the root)
            nested = [special, None, None, [[None, 2, ln(5), []], [None, 1, ln(6), []], [None, 0, ln(7), []]]]
        else:               # (0,(2,(1))X)
            nested = [None, None, None, [[None, 0, ln(1), []], [special, None, ln(8), [[None, 2, ln(4), []], [None, None, ln(2), [[None, 1, ln(9), []]]]]]]]
        trees.append({"nested": nested, "rooted": [-1, 1, 0][(k + t) % 3], "weight": None})
    inst = {"ns": ns, "trees": trees}
    h = k % 5               # namespace history: fresh / hole then late addition / reversed / sorted / hole + reversed
    if h == 1:
        inst["nsops"] = [["add", 0], ["tmp"], ["add", 1], ["rm"], ["add", 2]]
    elif h == 2:
        inst["nsops"] = [["add", 2], ["add", 1], ["add", 0], ["reverse"]]
    elif h == 3:
        inst["nsops"] = [["sort"]]
    elif h == 4:
        inst["nsops"] = [["tmp"], ["add", 2], ["tmp"], ["add", 0], ["rm"], ["add", 1], ["reverse"]]
    return inst


def gen_token_cases(states, quick):
    by_label = {}
    for st in states:
        by_label.setdefault(tuple(st["label"]), []).append((st["uu"], st["ps"], st["pu"]))
    cases = []
    for k, (cl, combos) in enumerate(sorted(by_label.items())):
        lab = X.concrete_label(list(cl))
        inst = special_label_instance(lab, "both", k, None)
        cfgs = all_configs(sorted(set(combos)))
        if quick or len(cl) >= 3:       # NEXUS alternately with and without TRANSLATE instead of both
            cfgs = [c for i, c in enumerate(cfgs) if c["schema"] != "nexus" or c["o"]["translate"] == bool((k + i // 3) % 2)]
        cases.append({"kind": "token-model", "classes": list(cl), "inst": inst, "configs": cfgs, "tok": [lab]})
    return cases


def gen_char_cases(quick):
    cases = []
    k = 0
    for c in FULL_ALPHABET:
        for ctx_name, lab in (("c", c), ("ca", c + "x"), ("ac", "y" + c), ("aca", "z" + c + "w")):
            if lab != lab.strip(" \t"):
                continue            # outside the side conditions (leading/trailing whitespace)
            for role in ("taxon", "internal"):
                k += 1
                inst = special_label_instance(lab, role, k, None)
                if not X.distinct_up_to_case(inst["ns"]):
                    continue
                if quick:
                    extra = COMBOS[1 + k % 3]
                    cfgs = all_configs([COMBOS[0]]) + [c2 for c2 in all_configs([extra], nexml=False) if not c2["o"]["translate"]]
                else:
                    cfgs = all_configs()
                cases.append({"kind": "char-context", "char": ord(c), "context": ctx_name, "role": role, "inst": inst,
                              "configs": cfgs, "tok": [lab] if role == "taxon" else []})
    return cases


def gen_model_cases(states):
    cases = []
    for k, st in enumerate(states):
        m = st["inst"]
        variant = 0 if m["dom"] == "symbols" else k % 4
        inst = X.inst_from_model(m, variant)
        labs = list(inst["ns"])
        if not X.distinct_up_to_case(labs):
            inst = X.inst_from_model(m, 0)
        o = dict(m["o"])
        acc = o.pop("acc", None)
        if acc:
            ops = X.nsops_from_acc(list(acc)[:len(inst["ns"])])
            if ops:
                inst["nsops"] = ops
        cfg = {"schema": m["schema"], "o": o}
        if len(inst["trees"]) == 1 and k % 3 == 0:
            cfg["api"] = "tree"
        cases.append({"kind": "tree-model", "dom": m["dom"], "inst": inst, "configs": [cfg]})
    return cases


# labels whose written form is delicate for a tokenizer: quotes that get doubled, comment brackets, underscores,
# spaces, punctuation inside quotes
DELICATE_TAXA = ["it's", "'", "a''b", "x[y", "p]q[", "u_v", "s t", "(r)", 'd"q', "Pq1"]
DELICATE_INTERNAL = ["o'k", "[", "_'_"]
BOUNDARIES_QUICK = (1024, 2048, 4096, 8192)
BOUNDARIES_THOROUGH = (1024, 2048, 4096, 8192, 16384, 65536)


def sweep_instance(ntrees):
    n = len(DELICATE_TAXA)
    trees = []
    for t in range(ntrees):
        idx = list(range(n)) if t % 2 == 0 else list(range(n - 1, -1, -1))
        inner1 = [DELICATE_INTERNAL[0], None, 0.5, [[None, idx[0], 1, []], [None, idx[1], 2.5e-07, []], [None, idx[2], None, []]]]
        inner2 = [DELICATE_INTERNAL[1], None, 3, [[None, idx[3], 1e-10, []], [None, idx[4], 2, []]]]
        inner3 = [DELICATE_INTERNAL[2], None, None, [[None, idx[5], 7.25, []], inner2, [None, idx[6], 0, []]]]
        root = [None, None, None, [inner1, inner3, [None, idx[7], 1, []], [None, idx[8], 6.02e+23, []], [None, idx[9], 1, []]]]
        trees.append({"nested": root, "rooted": [1, 0][t % 2], "weight": None})
    return {"ns": list(DELICATE_TAXA), "trees": trees}


def gen_sweep_cases(quick):
    """Padding sweep: the same delicate document preceded by a comment of every length n such that each of its
    characters falls on each side of each power-of-two stream offset (block boundaries of a buffered reader).
    The pad is produced by the writers themselves (tree comment for Newick, file comment for NEXUS)."""
    import dendropy
    cases = []
    combos = [COMBOS[0], COMBOS[3]] if quick else COMBOS
    bounds = BOUNDARIES_QUICK if quick else BOUNDARIES_THOROUGH
    plans = [("newick", "tree", 2, False), ("nexus", "file", 1, False)]
    if not quick:
        plans += [("nexus", "file", 2, True), ("nexus", "tree", 2, False)]
    for schema, where, ntrees, translate in plans:
        inst = sweep_instance(ntrees)
        for (uu, ps, pu) in combos:
            o = X.opts(uu=uu, ps=ps, pu=pu, translate=translate)
            pad0 = {where: 0, "node_comments": True}
            tl = X.build_instance(dendropy, inst)
            X.apply_pad(tl, pad0)
            len0 = len(tl.as_string(schema=schema, **X.writer_kwargs(schema, o, pad0)))     # a length, nothing else
            for b in bounds:
                ns_ = list(range(max(0, b - len0 - 8), b + 9))
                for lo in range(0, len(ns_), 48):
                    cfgs = [{"schema": schema, "o": o, "pad": {where: n, "node_comments": True}} for n in ns_[lo:lo + 48]]
                    cases.append({"kind": "pad-sweep", "boundary": b, "where": where, "inst": inst, "configs": cfgs})
    return cases


KEYWORDS = ["END", "End", "end", "ENDBLOCK", "BEGIN", "TREE", "TREES", "TAXA", "TAXLABELS", "TRANSLATE", "LINK", "TITLE",
            "DIMENSIONS", "NTAX", "MATRIX", "FORMAT", "UTREE", "#NEXUS"]


def gen_keyword_cases():
    """Labels that are whole NEXUS keywords: as taxon label first / in the middle / last in the namespace and as
    internal (inner and root) label; a later taxon of the namespace is not on the trees, and the
    trees list their leaves against the namespace order."""
    cases = []
    k = 0
    for kw in KEYWORDS:
        for pos in ("first", "middle", "last", "internal"):
            k += 1
            ns = list(PLAIN)                    # 4 taxa; the one at index 3 (or 2 when the keyword is last) stays unused
            special = None
            if pos == "first":
                ns[0] = kw
                used = [2, 1, 0]
            elif pos == "middle":
                ns[1] = kw
                used = [2, 1, 0]
            elif pos == "last":
                ns[3] = kw
                used = [3, 1, 0]
            else:
                special = kw
                used = [2, 1, 0]
            t1 = [special, None, None, [[None, used[0], 1, []], [special, None, 2.5e-07, [[None, used[1], None, []], [None, used[2], 3, []]]]]]
            t2 = [None, None, 0.5, [[None, used[2], 1, []], [None, used[0], 2, []], [None, used[1], 7.25, []]]]
            inst = {"ns": ns, "trees": [{"nested": t1, "rooted": 1, "weight": None}, {"nested": t2, "rooted": [-1, 0][k % 2], "weight": None}]}
            if k % 3 == 1:
                inst["nsops"] = [["add", 0], ["tmp"], ["add", 1], ["add", 2], ["rm"], ["add", 3]]
            cfgs = all_configs([COMBOS[0], COMBOS[1 + k % 3]])
            cases.append({"kind": "keyword-label", "keyword": kw, "position": pos, "inst": inst, "configs": cfgs})
    return cases


def rand_nsops(rng, n):
    """A random namespace history over n taxa: placeholders added in between and removed at a random moment
    (so that later taxa are added after a removal), then possibly sorted or reversed."""
    r = rng.random()
    if r < 0.5 or n == 0:
        return None
    order = list(range(n))
    if rng.random() < 0.3:
        rng.shuffle(order)
    ops = []
    rm_at = rng.randint(1, n)
    for j, i in enumerate(order):
        if j == rm_at:
            ops.append(["rm"])
        ops.append(["add", i])
        if rng.random() < 0.4:
            ops.append(["tmp"])
    ops.append(["rm"])
    x = rng.random()
    if x < 0.25:
        ops.append(["reverse"])
    elif x < 0.5:
        ops.append(["sort"])
    return ops


def rand_label(rng, maxlen=12):
    style = rng.random()
    n = rng.randint(1, maxlen)
    while True:
        if style < 0.4:         # mostly alphanumeric with up to two characters from the full alphabet
            s = [rng.choice("abcdefgXYZ0123456789") for _ in range(n)]
            for _ in range(rng.randint(0, 2)):
                s[rng.randrange(n)] = rng.choice(FULL_ALPHABET)
        elif style < 0.7:       # anything
            s = [rng.choice(FULL_ALPHABET) for _ in range(n)]
        else:                   # the usual suspects in species names
            s = [rng.choice("abcdeXYZ0129 _'.-") for _ in range(n)]
        s = "".join(s)
        if s and s == s.strip(" \t"):
            return s


def rand_labels(rng, n, maxlen=12):
    out = []
    while len(out) < n:
        s = rand_label(rng, maxlen)
        if X.distinct_up_to_case(out + [s]):
            out.append(s)
    return out


def gen_random_case(rng, k, tmpdir):
    nleaves = rng.randint(1, 10)
    inttaxa = rng.random() < 0.12
    ntrees = rng.choice([0, 1, 1, 2, 3, 4])
    trees = []
    n_int_max = 0
    shapes = []
    for _ in range(ntrees):
        nl = nleaves if rng.random() < 0.7 else rng.randint(1, nleaves)
        shape = build.random_parents(rng, nl, p_poly=0.3, p_unif=0.15) if nl > 1 else [None, None, None, []]
        shapes.append((shape, nl))
    # count internal nodes to size the namespace in internal-taxa mode
    def internals(nd):
        return (1 if nd[3] else 0) + sum(internals(c) for c in nd[3])
    n_int_max = max([internals(s) for s, _ in shapes] + [0])
    n_unused = rng.choice([0, 0, 1, 3])                  # taxa of the namespace that are on no tree
    ns = rand_labels(rng, nleaves + (n_int_max if inttaxa else 0) + n_unused)
    suprooting = rng.random() < 0.25
    uniform_r = rng.choice([-1, 0, 1])
    weights = rng.random() < 0.3
    lens_pool = rng.choice([LENS[1:], LENS[1:], LENS, [None]])
    for shape, nl in shapes:
        leaf_taxa = rng.sample(range(nleaves), nl)
        it = iter(leaf_taxa)
        int_it = iter(range(nleaves, len(ns) - n_unused))

        def fill(nd):
            nd[2] = rng.choice(lens_pool)
            if nd[3]:
                if inttaxa:
                    nd[1] = next(int_it)
                elif rng.random() < 0.6:
                    nd[0] = rand_label(rng)
                for c in nd[3]:
                    fill(c)
            else:
                nd[1] = next(it)
        fill(shape)
        trees.append({"nested": shape, "rooted": uniform_r if suprooting else rng.choice([-1, 0, 1]),
                      "weight": rng.choice([None, 0.25, 2, 1e-3]) if weights else None})
    rr = "" if not suprooting or ntrees == 0 or uniform_r == -1 else ("force-rooted" if uniform_r == 1 else "force-unrooted")
    cfgs = []
    for schema in ("newick", "nexus", "nexml"):
        uu, ps, pu = rng.choice(COMBOS)
        if schema == "nexml":
            o = X.opts()
        else:
            o = X.opts(uu=uu, ps=ps, pu=pu, translate=(schema == "nexus" and rng.random() < 0.5), suprooting=suprooting,
                       rrooting=rr if suprooting else "", weights=weights, inttaxa=inttaxa)
        cfg = {"schema": schema, "o": o}
        if ntrees == 1 and rng.random() < 0.5:
            cfg["api"] = "tree"
        if rng.random() < 0.15:
            cfg["route"] = "file"
        cfgs.append(cfg)
    inst = {"ns": ns, "trees": trees}
    ops = rand_nsops(rng, len(ns))
    if ops:
        inst["nsops"] = ops
    return {"kind": "random", "k": k, "inst": inst, "configs": cfgs, "tmpdir": tmpdir, "tok": ns[:2]}


# ---------------------------------------------------------------------------------------------- the check
DRIFT_PREFIX = "drift."
# the tokenizer and the reader are recursive definitions over the characters / tokens of a whole document
JENV = {"JAVA_TOOL_OPTIONS": "-Xss128m"}


def _judge(ctx, driven, batch):
    ctx.judge("Trace_TreeRoundTrip", driven, batch=batch, env=JENV, heap="2g")
    keep = []
    for v in ctx.verdicts:
        if str(v.get("clause", "")).startswith(DRIFT_PREFIX):
            ctx.drift[v["clause"][len(DRIFT_PREFIX):]] = ctx.drift.get(v["clause"][len(DRIFT_PREFIX):], 0) + 1
        else:
            keep.append(v)
    ctx.verdicts[:] = keep


def _nontrivial(ctx, driven):
    for case, evs in driven:
        for e in evs:
            if e["action"] != "RoundTrip":
                continue
            labs = e["src"]["ns"] + [l for g in e["src"]["trees"] for l in g["lab"] if l]
            special = any(not (48 <= c <= 57 or 65 <= c <= 90 or 97 <= c <= 122) for l in labs for c in l)
            if special or len(e["src"]["trees"]) != 1:
                ctx.add_nontrivial([e["schema"], e["o"], e["api"], e.get("pad", -1), sorted(labs), [g["kids"] for g in e["src"]["trees"]],
                                    [g["rooted"] for g in e["src"]["trees"]], [[bool(x) for x in g["len"]] for g in e["src"]["trees"]]])


def run(ctx):
    q = ctx.quick
    tier = "quick" if q else "thorough"
    # ---- models (independent TLC runs, started together)
    d1 = os.path.join(ctx.work, "tok.dump")
    d2 = os.path.join(ctx.work, "tree.dump")
    jobs = [lambda: ctx.model("MC_NexusToken", "MC_NexusToken_%s.cfg" % tier, extra=("-dump", d1), workers=4, env=JENV, heap="3g"),
            lambda: ctx.model("MC_NewickRoundTrip", "MC_NewickRoundTrip_%s.cfg" % tier, extra=("-dump", d2), timeout=6000, workers=6,
                              env=JENV, heap="4g"),
            lambda: ctx.model("MC_NexusToken", "AsShipped_NexusToken.cfg", expect_violation="TreeLabelOneToken", count=False, workers=1,
                              env=JENV, heap="2g")]
    jobs.append(lambda: ctx.model("MC_NexusTokenOffset", "MC_NexusTokenOffset_%s.cfg" % tier, workers=4, env=JENV, heap="3g", timeout=6000))
    jobs.append(lambda: ctx.model("MC_NexusTokenOffset", "BlockLookahead_NexusToken.cfg", expect_violation="OffsetIndependentTree",
                                  count=False, workers=1, env=JENV, heap="2g"))
    for cfgname in ("KeywordEndsTaxlabels_NewickRoundTrip.cfg", "ReusedAccession_NewickRoundTrip.cfg"):
        jobs.append(lambda cfgname=cfgname: ctx.model("MC_NewickRoundTrip", cfgname, expect_violation="RoundTripHolds", count=False,
                                                      workers=1, env=JENV, heap="2g"))
    for name in ("protect", "quoted", "leadsemi", "attr", "len", "empty"):
        jobs.append(lambda name=name: ctx.model("MC_NewickRoundTrip", "AsShipped_NewickRoundTrip_%s.cfg" % name,
                                                expect_violation="RoundTripHolds", count=False, workers=1, env=JENV, heap="2g"))
    errs = []

    def runner(fn):
        try:
            fn()
        except BaseException as ex:
            errs.append(ex)
    threads = []
    for j in jobs:
        th = threading.Thread(target=runner, args=(j,))
        th.start()
        threads.append(th)
        time.sleep(0.12)            # distinct metadir names (millisecond stamps)
    for th in threads:
        th.join()
    if errs:
        raise errs[0]
    tok_states = tlaval.read_dump(d1)
    os.remove(d1)
    tree_states = tlaval.read_dump(d2)
    os.remove(d2)
    # ---- cases
    cases = gen_token_cases(tok_states, q)
    n_tok = len(cases)
    cases += gen_char_cases(q)
    n_char = len(cases) - n_tok
    cases += gen_model_cases(tree_states)
    n_tree = len(cases) - n_tok - n_char
    kwcases = gen_keyword_cases()
    n_kw = len(kwcases)
    cases += kwcases
    sweep = gen_sweep_cases(q)
    n_sweep = len(sweep)
    n_sweep_rt = sum(len(c["configs"]) for c in sweep)
    cases += sweep
    rng = random.Random(ctx.seed * 1000003 + 2)
    nrand = 500 if q else 10000
    tmpdir = os.path.join(ctx.work, "files")
    os.makedirs(tmpdir, exist_ok=True)
    for k in range(nrand):
        cases.append(gen_random_case(rng, k, tmpdir))
    # drive and judge in slices (bounds the memory of the thorough tier); quick: one slice, one round of 8 judge JVMs
    slice_n = len(cases) if q else 5000
    samples = {}
    for lo in range(0, len(cases), slice_n):
        driven = ctx.drive(cases[lo:lo + slice_n], run_case, chunksize=16)
        nev = sum(len(evs) for _, evs in driven)
        _judge(ctx, driven, batch=max(1500, nev // 8 + 1))
        _nontrivial(ctx, driven)
        for idx in (0, n_tok + 5, n_tok + n_char + 10, len(cases) - 1):
            if lo <= idx < lo + len(driven) and driven[idx - lo][1]:
                samples[idx] = {"case_kind": driven[idx - lo][0]["kind"], "event": dict(driven[idx - lo][1][0])}
        # keep only the events of traces with a failing clause (replay files); the rest has been judged and counted
        failing = set(v["tid"] for v in ctx.verdicts)
        ctx.events[:] = [e for e in ctx.events if e["tid"] in failing]
        del driven
    ctx.rule = ("(1) every state of MC_NexusToken (labels up to %d characters over 28 character classes meeting the side conditions x "
                "consistent option pairs; %d labels) mapped to concrete characters, as taxon label and internal node label, "
                "x {newick, nexus, nexus+TRANSLATE} x consistent (unquoted_underscores, preserve_spaces, preserve_underscores) + nexml; "
                "(2) every printable ASCII character, TAB and %d non-ASCII letters in the contexts c, ca, ac, aca as taxon label and as "
                "internal node label (%d cases) on lists of 1-4 trees with all rooting states and lengths None/0/int/scientific floats; "
                "(3) every state of MC_NewickRoundTrip (%d instances: all shapes up to the node bound x label/length patterns x rooting, "
                "number-like and case-variant labels in every order with/without TRANSLATE and internal taxa, punctuation labels x option "
                "pairs, single-node trees whose only label is a punctuation character in lists of 1-3 x rooting x weights, lists of 0..n trees x rooting x weights x suppress_rooting+reader rooting); (4) %d seeded random instances "
                "(labels <= 12 characters from the full alphabet, trees <= 10 leaves, lists of 0-4 trees, random consistent options, "
                "Tree and TreeList API, string and file routes, random namespace histories and unused taxa); (4b) %d keyword-like labels "
                "(END, end, ENDBLOCK, TREE, ..., #NEXUS) x position first/middle/last/internal; namespaces with a history (taxa removed, "
                "added later, reversed, sorted) in (1), (2), (3 'history'), (4); (5) a padding sweep (see pad_sweep) and, on the model, MC_NexusTokenOffset: "
                "token identity is independent of the stream offset for every pad length.  distinct_nontrivial = distinct (schema, options, api, label set, shapes, "
                "rooting states, length-presence pattern) among round trips with a non-alphanumeric label or a list length other than 1"
                % (2 if q else 3, n_tok, len(X.NONASCII_SAMPLE), n_char, n_tree, nrand, len(KEYWORDS)))
    ctx.exhaustive = True
    ctx.extra["exhaustive_domain"] = ("the state spaces of MC_NexusToken_%s and MC_NewickRoundTrip_%s (every state replayed on the real "
                                      "library), and every printable ASCII character + TAB in 4 contexts x 2 roles" % (tier, tier))
    ctx.extra["cases_by_kind"] = {"token-model": n_tok, "char-context": n_char, "tree-model": n_tree, "keyword-label": n_kw, "pad-sweep": n_sweep, "random": nrand}
    ctx.extra["pad_sweep"] = ("%d round trips: delicate labels %r / %r, document preceded by a writer-produced comment of every length that puts "
                              "each character of the document on both sides of the stream offsets %r"
                              % (n_sweep_rt, DELICATE_TAXA, DELICATE_INTERNAL, list(BOUNDARIES_QUICK if q else BOUNDARIES_THOROUGH)))
    ctx.assumptions.append("distinctness of labels up to letter case is established by the driver with str.lower/upper/casefold "
                           "(TLC re-checks it for ASCII letters only); non-ASCII letters are a sample of %d characters"
                           % len(X.NONASCII_SAMPLE))
    ctx.assumptions.append("edge lengths are compared through float.hex() of the value (numeric equality); leaves always carry a taxon; "
                           "for Newick/NEXUS an internal node carries a label or (reader suppress_internal_node_taxa=False) a taxon, not both, "
                           "and leaf node labels are not used (the text formats hold one symbol per node)")
    ctx.assumptions.append("for Newick the re-read namespace is compared with the labels that occur on the written trees (the format has no "
                           "taxa block); tree weights are written and read where store_tree_weights is set but are not a clause of C02")
    for idx in sorted(samples):
        ctx.add_sample(samples[idx])


def replay(ctx, rec):
    case = dict(rec["case"])
    if case.get("tmpdir"):
        case["tmpdir"] = os.path.join(ctx.work, "files")
        os.makedirs(case["tmpdir"], exist_ok=True)
    driven = ctx.drive([case], run_case, parallel=False)
    _judge(ctx, driven, batch=2500)
    ctx.rule = "replay of one recorded case"
    ctx.add_sample({"case": rec["case"]})
