"""C18 - simulated trees meet their specification for every seed and are reproducible.

spec/TreeSim.tla        the simulators as deterministic transducers from a decision
                        sequence (the random generator is the environment) + the
                        clauses of the property on the graph form
spec/MC_TreeSim.tla     TLC: every decision sequence for N <= 3 / 4 tips (extinction,
                        restart and pruning paths included), Kingman, contained
                        coalescent; final-tree clauses, Determinism (self-composition
                        of two runs), NoGlobalRng; AsShipped / StopGT / Leak
                        configurations under which TLC must find the violation
spec/Trace_TreeSim.tla  TLC judges every real execution

Binding (M2 + M3): every finished behaviour of the dumped model is turned into the
values a ScriptedRandom returns and the REAL simulators run on it (twice); real
random.Random(seed) runs for seeds VERIF_SEED.. are executed twice from equal
generator states with GLOBAL_RNG replaced by a recording proxy.
"""
import os
import random

from vlib import core, tlaval, x_c18

ID = "C18"


def run_case(case):
    return x_c18.run_twice(case)


# --------------------------------------------------------------------------- model -> cases
def _jsonable_graph(g):
    return {k: (list(v) if isinstance(v, (list, tuple)) else v) for k, v in g.items()}


def _species_spec(sp):
    labels = ["ABCDEFGH"[i] for i in range(sum(1 for k in sp["kids"] if not k))]
    return {"par": list(sp["par"]), "len": [float(x) for x in sp["len"]], "labels": labels}


def script_cases(behaviours, seed0):
    """one or more real replays per finished model behaviour"""
    cases = []
    for k, st in enumerate(behaviours):
        cs, hist = st["cs"], st["hist"]
        hist = [{"k": d["k"], "x": d["x"], "y": d["y"], "p": list(d["p"])} for d in hist]
        sim = cs["sim"]
        csj = {"sim": sim, "N": cs["N"], "start": cs["start"], "gm": list(cs["gm"]),        # gm: the CURRENT assignment
               "sp": _jsonable_graph(cs["sp"]) if cs["sp"].get("n", 0) else {"n": 0}}
        mops = [{"op": o["op"], "p": list(o["p"])} for o in cs["ops"]]
        base = {"kind": "script", "model": sim, "cs": csj, "hist": hist, "seed": seed0 * 1000003 + k, "via": "rng",
                "restarts": st["restarts"], "pruned": st["ndead"]}
        has_death = any(d["k"] == "D" for d in hist)
        if sim in ("bd", "fast"):
            api = "birth_death_tree" if sim == "bd" else "fast_birth_death_tree"
            n0 = 2 if cs["start"] == "cherry" else 1
            variants = []
            if cs["start"] == "cherry":
                st_spec = {"par": [0, 1, 1], "len": [0.0, 1.0, 1.0], "labels": ["A", "B"]}
                variants.append(("start_tree", {"start": st_spec}, False))
            else:
                variants.append(("fresh", {}, False))
                if not has_death:
                    variants.append(("fresh", {}, True))             # death rate 0 (pure birth)
                if k % 3 == 0:
                    variants.append(("ns_given", {"ns": cs["N"] + (k % 2)}, False))
            for shape, extra, dz in variants:
                c = dict(base, api=api, shape=shape, N=cs["N"], ntaxa=cs["N"], birth=x_c18.BU / 2.0,
                         death=0.0 if dz else x_c18.DU / 2.0, script=x_c18.bd_script(hist, sim, n0, dz))
                c.update(extra)
                cases.append(c)
        elif sim == "upb":
            cases.append(dict(base, api="uniform_pure_birth_tree", shape="ns_given", N=cs["N"], ntaxa=cs["N"], birth=1.0,
                              script=x_c18.bd_script(hist, sim, 1, True)))
        elif sim == "king":
            cases.append(dict(base, api="pure_kingman_tree", shape="ns_given", N=cs["N"], ntaxa=cs["N"], pop=1,
                              script=x_c18.bd_script(hist, sim, 0, True)))
        elif sim == "cc":
            G = list(cs["G"])
            shape = "multi_gene" if max(G) > 1 else "single_gene"
            spec = _species_spec(cs["sp"])
            script = x_c18.bd_script(hist, sim, 0, True)
            # argument histories of the model: an earlier call, then the mapping re-applied in place (three routes);
            # the species tree annotated (ages, root distances, bipartitions cached), then its edge lengths scaled in place
            ops = []
            for o in mops:
                if o["op"] == "remap":
                    ops.append(dict(o, how=("dict", "fn", "attr")[k % 3]))
                elif o["op"] == "rescale":
                    f = o["p"][0]
                    spec = dict(spec, len=[x / f for x in spec["len"]])          # cs.sp is the tree as it is NOW
                    ops.append({"op": "edit_len", "f": float(f), "how": ("scale_edges", "direct")[k % 2]})
                elif o["op"] == "annotate":
                    ops.append({"op": "annotate", "what": ("all", "ages", "internal_ages")[k % 3]})
                else:
                    ops.append(o)
            cases.append(dict(base, api="contained_coalescent_tree", shape=shape, ntaxa=sum(G), G=G, sp=spec, pop=1, script=script, ops=ops))
            if not any(o["op"] == "remap" for o in mops):
                cases.append(dict(base, api="constrained_kingman_tree", shape=shape, ntaxa=sum(G), G=G, sp=spec,
                                  strategy="node_attribute", script=script, ops=ops))
    return cases


# --------------------------------------------------------------------------- seeded cases
def _random_species(rng, nsp):
    """random ultrametric species tree as a preorder parent array with lengths"""
    # coalescent-style: join random pairs at increasing heights
    items = [("leaf", 0.0, None) for _ in range(nsp)]
    h = 0.0
    while len(items) > 1:
        h += rng.choice([0.25, 0.5, 1.0, 2.0, round(rng.random() * 2 + 0.01, 3)])
        i, j = sorted(rng.sample(range(len(items)), 2))
        a, b = items[i], items[j]
        items = [x for k, x in enumerate(items) if k not in (i, j)] + [("int", h, (a, b))]
    par, lens = [], []

    def emit(nd, p, ph):
        par.append(p)
        me = len(par)
        lens.append(0.0 if p == 0 else ph - nd[1])
        if nd[2]:
            for c in nd[2]:
                emit(c, me, nd[1])
    emit(items[0], 0, 0.0)
    nl = sum(1 for i in range(len(par)) if (i + 1) not in par)
    return {"par": par, "len": lens, "labels": ["sp%d" % (i + 1) for i in range(nl)]}


def seed_cases(seed0, nseeds):
    cases = []
    for s in range(seed0, seed0 + nseeds):
        r = random.Random(s * 2654435761 % (2 ** 31))
        via = "global" if r.random() < 0.15 else "rng"
        N = r.choice([1, 2, 2, 3, 3, 4, 5, 6, 8, 10, 13])
        birth = r.choice([0.5, 1.0, 2.0, 3.7])
        death = birth * r.choice([0.0, 0.0, 0.1, 0.5, 0.8])
        base = {"kind": "seed", "seed": s, "via": via}
        for api, model in (("birth_death_tree", "bd"), ("fast_birth_death_tree", "fast")):
            c = dict(base, api=api, model=model, N=N, ntaxa=N, birth=birth, death=death, shape="fresh")
            q = r.random()
            if q < 0.3:
                c.update(shape="ns_given", ns=r.choice([0, max(0, N - 1), N, N + 3]), nsprefix=r.choice(["s", "T"]))
            elif q < 0.55 and N >= 2:
                if N >= 3 and r.random() < 0.5:
                    c.update(shape="start_tree", start={"par": [0, 1, 2, 2, 1], "len": [0.0, 1.0, 0.5, 0.5, 1.5], "labels": ["A", "B", "C"]})
                else:
                    L = r.choice([0.5, 1.0, 2.25])
                    c.update(shape="start_tree", start={"par": [0, 1, 1], "len": [0.0, L, L], "labels": ["A", "B"]})
            cases.append(c)
        # a supplied tree and a high death rate: the restart-after-total-extinction path with several initial tips
        st = r.choice([{"par": [0, 1, 1], "len": [0.0, 1.0, 1.0], "labels": ["A", "B"]},
                       {"par": [0, 1, 2, 2, 1], "len": [0.0, 1.0, 0.5, 0.5, 1.5], "labels": ["A", "B", "C"]}])
        n2 = r.choice([3, 4, 5])
        for api, model in (("birth_death_tree", "bd"), ("fast_birth_death_tree", "fast")):
            cases.append(dict(base, via="rng", api=api, model=model, N=n2, ntaxa=n2, birth=birth, death=0.9 * birth,
                              shape="start_tree", start=st))
        cases.append(dict(base, api="uniform_pure_birth_tree", model="upb", N=N, ntaxa=N, birth=birth, shape="ns_given"))
        cases.append(dict(base, api="pure_kingman_tree", model="king", N=N, ntaxa=N, shape="ns_given",
                          pop=r.choice([1, 1, 2, 0.5, 5, 10.0])))
        nsp = r.choice([1, 2, 2, 3, 3, 4, 5])
        sp = _random_species(r, nsp)
        G = [r.choice([1, 1, 2, 3]) for _ in range(nsp)]
        shape = "multi_gene" if max(G) > 1 else "single_gene"
        pops = r.choice([None, None, [r.choice([1, 2, 0.5]) for _ in sp["par"]]])
        cc = dict(base, api="contained_coalescent_tree", model="cc", ntaxa=sum(G), G=G, sp=sp, shape=shape, pop=r.choice([1, 1, 2, 0.5]))
        if pops:
            cc["edge_pop"] = pops
        cases.append(cc)
        strat = r.choice(["node_attribute", "fixed_per_population", "random_uniform"])
        ck = dict(base, api="constrained_kingman_tree", model="cc", sp=sp, strategy=strat)
        if pops:
            ck["edge_pop"] = pops
        if strat == "node_attribute":
            ck.update(G=G, ntaxa=sum(G), shape=shape)
        elif strat == "fixed_per_population":
            ck.update(G=[G[0]] * nsp, ntaxa=G[0] * nsp, shape="multi_gene" if G[0] > 1 else "single_gene")
        else:
            ng = r.choice([nsp, nsp + 2, 2 * nsp])
            ck.update(G=[], num_genes=ng, ntaxa=ng, shape="random_uniform")
        cases.append(ck)
        cases.extend(_history_cases(r, base, cc, ck, N, birth, death))
    return cases


def _history_cases(r, base, cc, ck, N, birth, death):
    """the same argument objects used by an earlier call and/or modified in place before the call under study"""
    out = []
    nsp = len(cc["G"])
    # 1. contained coalescent: earlier call, then the mapping re-applied / the species tree edited in place
    ops = [{"op": "call"}] if r.random() < 0.8 else []
    q = r.random()
    if nsp >= 2 and q < 0.5:
        p = list(range(1, nsp + 1))
        while p == list(range(1, nsp + 1)):
            r.shuffle(p)
        ops.append({"op": "remap", "p": p, "how": r.choice(["dict", "fn", "attr"])})
    elif q < 0.75:
        if r.random() < 0.7:
            ops.append({"op": "annotate", "what": r.choice(["all", "ages", "internal_ages", "root_dist", "bipartitions"])})
        ops.append({"op": "edit_len", "f": r.choice([0.5, 2.0, 4.0]), "how": r.choice(["direct", "scale_edges"])})
    elif q < 0.9:
        ops.append({"op": "edit_pop", "pops": [r.choice([1, 2, 0.5, 3]) for _ in cc["sp"]["par"]]})
    if ops:
        out.append(dict(cc, ops=ops, via="rng"))
    # 2. constrained Kingman: the population tree used before (gene_nodes left on it), edited lengths, other gene counts
    ops = [{"op": "call"}]
    q = r.random()
    if q < 0.4:
        if r.random() < 0.5:
            ops = []
        if r.random() < 0.8:
            ops.append({"op": "annotate", "what": r.choice(["all", "ages", "internal_ages", "root_dist", "bipartitions"])})
        ops.append({"op": "edit_len", "f": r.choice([0.5, 2.0, 4.0]), "how": r.choice(["direct", "scale_edges"])})
    elif q < 0.5 and ck["strategy"] == "node_attribute":
        ops.append({"op": "set_genes", "G": [r.choice([1, 2, 3]) for _ in ck["G"]]})
    elif q < 0.6:
        ops.append({"op": "call"})
    ck2 = dict(ck, ops=ops, via="rng")
    if ops[-1]["op"] == "set_genes":
        ck2["shape"] = "multi_gene" if max(ops[-1]["G"]) > 1 else "single_gene"
    out.append(ck2)
    # 3. a supplied namespace used before, then relabelled / grown
    api, model = r.choice([("birth_death_tree", "bd"), ("fast_birth_death_tree", "fast"), ("uniform_pure_birth_tree", "upb"),
                           ("pure_kingman_tree", "king")])
    n = max(N, 2)
    c = dict(base, via="rng", api=api, model=model, N=n, ntaxa=n, birth=birth, death=death, shape="ns_given",
             ns=r.choice([0, n - 1, n]) if model in ("bd", "fast") else n, pop=r.choice([1, 2, 0.5]))
    ops = [{"op": "call"}]
    q = r.random()
    if q < 0.4:
        ops.append({"op": "relabel", "labels": [[i, "r%d" % i] for i in range(0, n, 2)]})
    elif q < 0.8:
        ops.append({"op": "add_taxa", "labels": ["x%d" % i for i in range(r.choice([1, 2]))]})
    c["ops"] = ops
    out.append(c)
    # 4. a supplied start tree looked at (ages, root distances, bipartitions cached) and then rescaled in place
    api, model = r.choice([("birth_death_tree", "bd"), ("fast_birth_death_tree", "fast")])
    st = r.choice([{"par": [0, 1, 1], "len": [0.0, 1.0, 1.0], "labels": ["A", "B"]},
                   {"par": [0, 1, 2, 2, 1], "len": [0.0, 1.0, 0.5, 0.5, 1.5], "labels": ["A", "B", "C"]}])
    out.append(dict(base, via="rng", api=api, model=model, N=r.choice([3, 4, 6]), birth=birth, death=death, shape="start_tree", start=st,
                    ops=[{"op": "annotate", "what": r.choice(["all", "ages", "root_dist"])},
                         {"op": "edit_len", "f": r.choice([0.5, 2.0, 4.0]), "how": r.choice(["direct", "scale_edges"])}]))
    out[-1]["ntaxa"] = out[-1]["N"]
    return out


# --------------------------------------------------------------------------- run
def _model_cfgs(ctx):
    return ("MC_TreeSim_quick.cfg",) if ctx.quick else ("MC_TreeSim_thorough.cfg", "MC_TreeSim_thorough_cc.cfg")


def run(ctx):
    # 1. TLC checks the reference design and dumps every behaviour
    behaviours = []
    for cfg in _model_cfgs(ctx):
        dump = os.path.join(ctx.work, "treesim.dump")
        ctx.model("MC_TreeSim", cfg, extra=("-dump", dump), workers=8, heap="3g" if ctx.quick else "6g")
        n, beh = x_c18.finished_behaviours(dump)
        os.remove(dump)
        ctx.log("%s: %d dumped states, %d finished behaviours" % (cfg, n, len(beh)))
        behaviours.extend(beh)
    behaviours.sort(key=lambda b: core.dumps([b["cs"]["sim"], b["cs"]["N"], b["cs"]["start"], b["cs"]["G"], b["cs"]["sp"].get("par", []),
                                              b["cs"]["sp"].get("len", []), b["cs"]["ops"], b["hist"]]))
    # non-vacuity: TLC must find the violation under each switch
    ctx.model("MC_TreeSim", "AsShipped_TreeSim.cfg", expect_violation="ExtantTipsEquidistant", count=False, workers=4, heap="1g")
    ctx.model("MC_TreeSim", "StopGT_TreeSim.cfg", expect_violation="ExactlyNExtantLeaves", count=False, workers=4, heap="1g")
    ctx.model("MC_TreeSim", "Leak_TreeSim.cfg", expect_violation="NoGlobalRng", count=False, workers=4, heap="1g")
    ctx.model("MC_TreeSim", "Leak2_TreeSim.cfg", expect_violation="Determinism", count=False, workers=4, heap="1g")
    ctx.model("MC_TreeSim", "StaleArgs_TreeSim.cfg", expect_violation="CoalescenceRespectsDivergence", count=False, workers=4, heap="1g")
    ctx.model("MC_TreeSim", "StaleArgs2_TreeSim.cfg", expect_violation="Determinism", count=False, workers=4, heap="1g")
    # 2. spec -> code: every finished behaviour replayed on the real simulators
    scases = script_cases(behaviours, ctx.seed)
    nbeh = len(behaviours)
    # 3. real seeded runs, twice from equal generator states
    nseeds = int(os.environ.get("VERIF_C18_SEEDS", "0")) or (200 if ctx.quick else 20000)
    rcases = seed_cases(ctx.seed, nseeds)
    allcases = scases + rcases
    SLICE = 40000                         # bounds the memory held by logged events (thorough tier)
    for i in range(0, len(allcases), SLICE):
        driven = ctx.drive(allcases[i:i + SLICE], run_case)
        ctx.judge("Trace_TreeSim", driven, batch=1000 if ctx.quick else 5000, heap="2g")
        _account(ctx, driven)
        del driven
    ctx.rule = ("cases = every finished behaviour (decision sequence) of the dumped TLC model MC_TreeSim (%d behaviours, %d scripted "
                "real executions x 2 runs over birth_death_tree, fast_birth_death_tree, uniform_pure_birth_tree, pure_kingman_tree, "
                "contained_coalescent_tree, constrained_kingman_tree) + %d seeds x 12 simulator calls (4 of them after an argument history: earlier call on the same objects, tree annotated with ages/root distances/bipartitions then rescaled, mapping re-applied / species tree or namespace edited in place) with random.Random(seed), each run twice; "
                "distinct_nontrivial = distinct (api, shape, projected result tree) with >= 2 leaves" % (nbeh, len(scases), nseeds))
    ctx.exhaustive = True
    ctx.extra["exhaustive_domain"] = ("every decision sequence of MC_TreeSim that finishes within the bounds of %s (all %d), each replayed on "
                                      "the real simulators; the seeded runs are a sample" % (", ".join(_model_cfgs(ctx)), nbeh))
    ctx.extra["model_behaviours_replayed"] = nbeh
    ctx.extra["scripted_executions"] = len(scases)
    ctx.extra["seeded_executions"] = len(rcases)
    ctx.extra["behaviours_with_restart"] = sum(1 for c in scases if c.get("restarts"))
    ctx.extra["behaviours_with_pruned_extinct_tips"] = sum(1 for c in scases if c.get("pruned"))
    ctx.extra["executions_after_an_argument_history"] = sum(1 for c in allcases if c.get("ops"))
    ctx.assumptions.append("float edge lengths of seeded runs are judged as fixed-point integers (10^7 units per 1.0 unless the tree is "
                           "longer than 200): equidistance / divergence order within dendropy's DEFAULT_ULTRAMETRICITY_PRECISION plus one "
                           "unit per node; the statistical law of the trees is not judged (support only)")
    ctx.assumptions.append("species trees handed to the contained coalescent are ultrametric (ages are measured from the tips)")


def _account(ctx, driven):
    """drift verdicts are counted, never reported; evidence counters; events of clean traces are dropped"""
    keep = []
    for v in ctx.verdicts:
        if str(v.get("clause", "")).startswith("DRIFT."):
            key = "%s %s" % (v["clause"][6:], v.get("class", ""))
            ctx.drift[key] = ctx.drift.get(key, 0) + 1
        else:
            keep.append(v)
    ctx.verdicts[:] = keep
    ctx.drift.setdefault("ScriptNotFollowed", 0)
    ctx.drift.setdefault("ModelTreeDiffers", 0)
    nrng = ctx.extra.get("rng_calls_logged_first_runs", 0)
    for case, evs in driven:
        for e in evs:
            nrng += e["nrng1"]
            if e["g1"]["n"] >= 3:
                ctx.add_nontrivial([e["api"], e["shape"], e["g1"]["par"], e["g1"]["len"], e["g1"]["tx"]])
    ctx.extra["rng_calls_logged_first_runs"] = nrng
    for case, evs in driven[:1] + driven[-1:]:
        e = evs[0]
        ctx.add_sample({"case": {k: case[k] for k in case if k not in ("script",)},
                        "event": {k: e[k] for k in ("api", "kind", "via", "N", "g1", "nrng1", "ngcalls1", "scale")}})
    bad = set(v["tid"] for v in ctx.verdicts)
    ctx.events[:] = [e for e in ctx.events if e["tid"] in bad]       # replay files only need the failing traces


def replay(ctx, rec):
    driven = ctx.drive([rec["case"]], run_case, parallel=False)
    ctx.judge("Trace_TreeSim", driven, heap="1g")
    _account(ctx, driven)
    ctx.rule = "replay of one recorded case"
