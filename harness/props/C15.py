"""C15 - every traversal visits each node or edge exactly once in its defining order.

spec/Traversal.tla defines every iterator's output on the graph form;
MC_Traversal checks the definitions on all ordered trees up to a node bound
(TLC) and dumps that domain; every dumped tree is built as a real Tree and
every iterator of Tree and Node is run from every start node under a set of
filter functions (incl. falsy-returning values); Trace_Traversal (TLC) judges
each yielded sequence against the definition on the projected raw pointers.
"""
import os
import random

from vlib import core, tlaval, proj, build

ID = "C15"

FALSY = [0, "", None, [], False, 0.0]
TRUTHY = [1, "x", True, [0], 2.5, object()]


def make_filters(n, rng):
    """name -> list of return values per node id (index id-1); None = no filter"""
    fs = {"none": None,
          "always": [TRUTHY[i % len(TRUTHY)] for i in range(n)],
          "never": [FALSY[i % len(FALSY)] for i in range(n)],
          "mixed": [(TRUTHY if rng.random() < 0.5 else FALSY)[i % 6] for i in range(n)],
          "subset": [bool(rng.random() < 0.6) for i in range(n)]}
    return fs


def _raw_nodes(tree):
    out, st = [], [tree._seed_node]
    while st:
        nd = st.pop()
        out.append(nd)
        st.extend(reversed(nd._child_nodes))
    return out


def run_case(case):
    import dendropy
    rng = random.Random(case["seed"])
    ns, taxa = build.make_namespace(dendropy, max(1, case["nleaves"]))
    # the rooting flag must not matter to any traversal (-1/None, 0/False, 1/True)
    tree = build.build_tree(dendropy, case["nested"], ns, taxa, rooted={1: True, 0: False, -1: None}[case.get("rooted", 1)])
    # history before the traversals (hidden state such as cached bipartitions must not matter)
    hist = case.get("history", "")
    if hist:
        if "shared" in hist:                      # several leaves carrying one and the same taxon / no taxon
            lvs = [nd for nd in _raw_nodes(tree) if not nd._child_nodes]
            for k, nd in enumerate(lvs):
                nd.taxon = taxa[0] if k % 2 == 0 else None
        try:
            tree.encode_bipartitions()
        except Exception:
            pass
        nodes = _raw_nodes(tree)
        if "grow" in hist:
            nd = nodes[rng.randrange(len(nodes))]
            c1 = nd.new_child(label="x1")
            if rng.random() < 0.5:
                nd.new_child(label="x2")
        if "shrink" in hist:
            cand = [nd for nd in _raw_nodes(tree) if not nd._child_nodes and nd._parent_node is not None]
            if cand:
                nd = cand[rng.randrange(len(cand))]
                nd._parent_node.remove_child(nd)
    ids = {}
    g = proj.tree_graph(tree, node_ids=ids)
    order = ids.pop("__order__")
    n = g["n"]
    nid = lambda nd: ids.get(id(nd), 0)
    eid = dict((id(nd._edge), ids[id(nd)]) for nd in order)
    enid = lambda e: eid.get(id(e), 0)
    filters = make_filters(n, rng)
    if case.get("filters"):
        filters = dict((k, v) for k, v in filters.items() if k in case["filters"])
    # age ranks (what TLC compares) and a scale: the order must hold for ages of any magnitude / spacing
    ages = [rng.randint(0, 3) for _ in range(n)]
    age_scale = (1, 1e-6, 1e-9, 1e6, 0.5)[case["seed"] % 5]
    for nd in order:
        nd.age = ages[ids[id(nd)] - 1] * age_scale
    evs = []

    def fn_node(vals):
        if vals is None:
            return None
        return lambda nd: vals[ids[id(nd)] - 1]

    def fn_edge(vals):
        if vals is None:
            return None
        return lambda e: vals[eid[id(e)] - 1]

    def P_of(vals):
        return list(range(1, n + 1)) if vals is None else [i + 1 for i, v in enumerate(vals) if v]

    def log_iter(kind, api, start, vals, opt, thunk, conv):
        try:
            out = [conv(x) for x in thunk()]
            raised = ""
        except TypeError as ex:
            out, raised = [], "TypeError"
        except Exception as ex:
            out, raised = [], type(ex).__name__
        evs.append({"action": "Iter", "g": g, "kind": kind, "api": api, "start": start, "P": P_of(vals),
                    "opt": bool(opt), "out": out, "raised": raised})

    starts = order if case.get("all_starts", True) else [order[0]] + rng.sample(order, min(3, len(order)))
    for fname, vals in sorted(filters.items()):
        f = fn_node(vals)
        fe = fn_edge(vals)
        for nd in starts:
            s = ids[id(nd)]
            log_iter("preorder", "Node.preorder_iter", s, vals, False, lambda: nd.preorder_iter(f), nid)
            log_iter("postorder", "Node.postorder_iter", s, vals, False, lambda: nd.postorder_iter(f), nid)
            log_iter("levelorder", "Node.levelorder_iter", s, vals, False, lambda: nd.levelorder_iter(f), nid)
            log_iter("inorder", "Node.inorder_iter", s, vals, False, lambda: nd.inorder_iter(f), nid)
            log_iter("leaf", "Node.leaf_iter", s, vals, False, lambda: nd.leaf_iter(f), nid)
            log_iter("child", "Node.child_node_iter", s, vals, False, lambda: nd.child_node_iter(f), nid)
            log_iter("child", "Node.child_edge_iter", s, vals, False, lambda: nd.child_edge_iter(fe), enid)
            for opt in (False, True):
                log_iter("preorder_internal", "Node.preorder_internal_node_iter", s, vals, opt,
                         lambda: nd.preorder_internal_node_iter(f, exclude_seed_node=opt), nid)
                log_iter("postorder_internal", "Node.postorder_internal_node_iter", s, vals, opt,
                         lambda: nd.postorder_internal_node_iter(f, exclude_seed_node=opt), nid)
                log_iter("ancestor", "Node.ancestor_iter", s, vals, opt, lambda: nd.ancestor_iter(f, inclusive=opt), nid)
            if fname in ("none", "mixed"):
                for incl in (True, False):
                    for desc in (False, True):
                        try:
                            out = [nid(x) for x in nd.ageorder_iter(filter_fn=f, include_leaves=incl, descending=desc)]
                            raised = ""
                        except Exception as ex:
                            out, raised = [], type(ex).__name__
                        evs.append({"action": "AgeOrder", "g": g, "api": "Node.ageorder_iter", "start": s, "ages": ages,
                                    "incl": incl, "desc": desc, "P": P_of(vals), "out": out, "raised": raised})
        # Tree-level wrappers (start = seed)
        s = g["seed"]
        t = tree
        log_iter("preorder", "Tree.preorder_node_iter", s, vals, False, lambda: t.preorder_node_iter(f), nid)
        log_iter("preorder", "Tree.nodes", s, vals, False, lambda: t.nodes(f), nid)
        log_iter("postorder", "Tree.postorder_node_iter", s, vals, False, lambda: t.postorder_node_iter(f), nid)
        log_iter("levelorder", "Tree.levelorder_node_iter", s, vals, False, lambda: t.levelorder_node_iter(f), nid)
        log_iter("inorder", "Tree.inorder_node_iter", s, vals, False, lambda: t.inorder_node_iter(f), nid)
        log_iter("leaf", "Tree.leaf_node_iter", s, vals, False, lambda: t.leaf_node_iter(f), nid)
        log_iter("preorder", "Tree.preorder_edge_iter", s, vals, False, lambda: t.preorder_edge_iter(fe), enid)
        log_iter("preorder", "Tree.edges", s, vals, False, lambda: t.edges(fe), enid)
        log_iter("postorder", "Tree.postorder_edge_iter", s, vals, False, lambda: t.postorder_edge_iter(fe), enid)
        log_iter("levelorder", "Tree.levelorder_edge_iter", s, vals, False, lambda: t.levelorder_edge_iter(fe), enid)
        log_iter("inorder", "Tree.inorder_edge_iter", s, vals, False, lambda: t.inorder_edge_iter(fe), enid)
        log_iter("leaf", "Tree.leaf_edge_iter", s, vals, False, lambda: t.leaf_edge_iter(fe), enid)
        for opt in (False, True):
            log_iter("preorder_internal", "Tree.preorder_internal_node_iter", s, vals, opt,
                     lambda: t.preorder_internal_node_iter(f, exclude_seed_node=opt), nid)
            log_iter("postorder_internal", "Tree.postorder_internal_node_iter", s, vals, opt,
                     lambda: t.postorder_internal_node_iter(f, exclude_seed_node=opt), nid)
            log_iter("preorder_internal", "Tree.preorder_internal_edge_iter", s, vals, opt,
                     lambda: t.preorder_internal_edge_iter(fe, exclude_seed_edge=opt), enid)
            log_iter("postorder_internal", "Tree.postorder_internal_edge_iter", s, vals, opt,
                     lambda: t.postorder_internal_edge_iter(fe, exclude_seed_edge=opt), enid)
    # unfiltered list helpers, __iter__, len, apply
    s = g["seed"]
    allv = None
    log_iter("preorder", "Tree.__iter__", s, allv, False, lambda: iter(tree), nid)
    log_iter("leaf", "Tree.leaf_nodes", s, allv, False, lambda: tree.leaf_nodes(), nid)
    log_iter("leaf", "Tree.leaf_edges", s, allv, False, lambda: tree.leaf_edges(), enid)
    for opt in (False, True):
        log_iter("preorder_internal", "Tree.internal_nodes", s, allv, opt, lambda: tree.internal_nodes(exclude_seed_node=opt), nid)
        log_iter("preorder_internal", "Tree.internal_edges", s, allv, opt, lambda: tree.internal_edges(exclude_seed_edge=opt), enid)
    for nd in order:
        log_iter("leaf", "Node.leaf_nodes", ids[id(nd)], allv, False, lambda: nd.leaf_nodes(), nid)
        log_iter("preorder", "Node.__iter__", ids[id(nd)], allv, False, lambda: iter(nd), nid)
    evs.append({"action": "Len", "g": g, "val": len(tree)})
    combos = [("before", "after", "leaf")]
    if case.get("all_starts", True):
        combos += [("before", "after"), ("before", "leaf"), ("after", "leaf"), ("before",), ("after",), ("leaf",), ()]
    else:
        combos += [rng.choice([("before", "after"), ("after",), ("after", "leaf"), ("before",)])]
    for nd, api in [(x, "Node.apply") for x in starts] + [(None, "Tree.apply")]:
        for given in combos:
            out = []
            b = (lambda x: out.append({"k": "before", "n": nid(x)})) if "before" in given else None
            a = (lambda x: out.append({"k": "after", "n": nid(x)})) if "after" in given else None
            lf = (lambda x: out.append({"k": "leaf", "n": nid(x)})) if "leaf" in given else None
            try:
                (tree if nd is None else nd).apply(before_fn=b, after_fn=a, leaf_fn=lf)
                raised = ""
            except Exception as ex:
                raised = type(ex).__name__
            evs.append({"action": "Apply", "g": g, "api": api, "start": g["seed"] if nd is None else ids[id(nd)],
                        "given": list(given), "out": out, "raised": raised})
    # Tree.ageorder_node_iter uses the ages set above (seed age is not None)
    for incl in (True, False):
        for desc in (False, True):
            try:
                out = [nid(x) for x in tree.ageorder_node_iter(include_leaves=incl, descending=desc)]
                raised = ""
            except Exception as ex:
                out, raised = [], type(ex).__name__
            evs.append({"action": "AgeOrder", "g": g, "api": "Tree.ageorder_node_iter", "start": g["seed"], "ages": ages,
                        "incl": incl, "desc": desc, "P": list(range(1, n + 1)), "out": out, "raised": raised})
    return evs


def run(ctx):
    dump = os.path.join(ctx.work, "trav.dump")
    ctx.model("MC_Traversal", "MC_Traversal_quick.cfg" if ctx.quick else "MC_Traversal_thorough.cfg", extra=("-dump", dump))
    states = tlaval.read_dump(dump)
    os.remove(dump)
    cases = []
    for k, st in enumerate(states):
        par = st["g"]["par"]
        nl = build.num_leaves([p - 1 for p in par])
        # all three rooting states for trees up to 5 nodes, rotating beyond
        for rooted in ((1, 0, -1) if len(par) <= 5 else ((1, 0, -1)[k % 3],)):
            cases.append({"kind": "model", "seed": ctx.seed * 7919 + k, "nleaves": nl, "rooted": rooted,
                          "nested": build.nested_from_parents(par, list(range(nl))), "all_starts": rooted == 1 or len(par) > 5})
    nmodel = len(cases)
    # the same domain again after a history: encode bipartitions, then edit without updating them
    hcases = []
    for k, c in enumerate(cases):
        for h in (("encode",), ("encode", "grow"), ("encode", "shrink"), ("shared", "encode", "grow")):
            if not ctx.quick or (k + len(h)) % 2 == 0:
                hc = dict(c, kind="model+history", history="+".join(h), all_starts=False, filters=["none", "mixed"],
                          rooted=(1, 0, -1)[(k + len(h)) % 3],
                          seed=c["seed"] * 31 + len(hcases))
                hcases.append(hc)
    cases += hcases
    rng = random.Random(ctx.seed + 15)
    nrand = 40 if ctx.quick else 1500
    for k in range(nrand):
        nl = rng.randint(5, 14)
        nested = build.assign(build.random_parents(rng, nl, p_poly=0.3, p_unif=0.15), rng, list(range(nl)), label_internal=True)
        cases.append({"kind": "random", "seed": ctx.seed * 7919 + 100000 + k, "nleaves": nl, "nested": nested, "rooted": (1, 0, -1)[k % 3],
                      "all_starts": False, "filters": ["none", "mixed", "subset"]})
    # large trees (beyond any block / chunk size an iterator implementation may use internally; seeded change C15-v1
    # broke level-order only from the 65th node on).  At most 150 leaves: proj.NODE_CAP (400 node objects, the
    # projection's guard against cyclic structures) must not be reached, or the graph form is truncated.
    rng2 = random.Random(ctx.seed + 1515)
    for k, nl in enumerate((40, 70, 130) if ctx.quick else (40, 70, 130, 150, 100, 70, 130, 150)):
        nested = build.assign(build.random_parents(rng2, nl, p_poly=0.3, p_unif=0.1), rng2, list(range(nl)), label_internal=True)
        cases.append({"kind": "random", "seed": ctx.seed * 7919 + 200000 + k, "nleaves": nl, "nested": nested, "rooted": (1, 0, -1)[k % 3],
                      "all_starts": False, "filters": ["none", "mixed"]})
    driven = ctx.drive(cases, run_case)
    ctx.judge("Trace_Traversal", driven, batch=3000)
    for case, evs in driven:
        for e in evs:
            if e["action"] == "Iter" and len(e["out"]) > 1:
                ctx.add_nontrivial([e["kind"], e["api"], e["start"], e["P"], e["opt"], e["g"]["par"]])
    ctx.rule = ("every ordered tree with <= %d nodes from TLC's dump of MC_Traversal (%d trees, exhaustive) x every start node x 5 filters "
                "x every iterator of Node and Tree, + %d random trees with 5-14 leaves; distinct_nontrivial = distinct "
                "(iterator, start, filter set, option, tree shape) whose output has more than one element" % (6 if ctx.quick else 7, nmodel, nrand))
    ctx.exhaustive = True
    ctx.extra["exhaustive_domain"] = "ordered rooted trees with at most %d nodes (all %d), every start node, the 5 filter tables" % (6 if ctx.quick else 7, nmodel)
    ctx.add_sample({"case": driven[10][0], "event": driven[10][1][0]})
    ctx.add_sample({"case": driven[-1][0], "event": driven[-1][1][3]})


def replay(ctx, rec):
    driven = ctx.drive([rec["case"]], run_case, parallel=False)
    ctx.judge("Trace_Traversal", driven)
    ctx.rule = "replay of one recorded case"
    ctx.add_sample({"case": rec["case"]})
