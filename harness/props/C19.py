"""C19 - character-matrix row/column operations select exactly what they name; terminate.

spec/CharMatrix.tla      matrices [label, ns, rows: taxon -> Seq(cell), subs] and every operation as a pure operator,
                         plus the clauses of the property as predicates on (before, after)
spec/MC_CharMatrix.tla   bounded model: all histories of <= 2 (quick) / 3 (thorough) operations over 3 matrices +
                         a result slot + a foreign-namespace matrix, from 3 initial configurations (TLC)
spec/ConcatNaming.tla    PlusCal transcription of the subset-naming loop of concatenate: Termination under weak
                         fairness; AsShipped_CharMatrix.cfg must produce the lasso of the shipped loop
spec/Trace_CharMatrix.tla  TLC judges every logged real call (total verdicts)

Binding: (M2) every transition of the dumped state graph is replayed on real matrices of every data type, each call
under the step budget (a hang is an outcome, judged by TLC); (M3) those executions and seeded random histories on
larger matrices are logged and judged by TLC.  This file contains no oracle: it builds matrices, calls the public
API, projects matrices to JSON and counts.
"""
import os
import random

from vlib import core, tlaval
from vlib import tlc as _tlc
from vlib.budget import run_with_budget

ID = "C19"
BUDGET = 100000          # line events inside dendropy per call, plus 100 per cell of the matrices involved
                         # (largest legitimate call measured: 3.3k steps here, 6.1k on an 8 x 64 matrix)
ROW_CAP = 4000
PAD = 0                  # model value of the fill value
DEEP_CLASSES = {"quick": 1, "thorough": 10}     # data types per depth-2 transition (in rotation)
N_RANDOM = {"quick": 400, "thorough": 8000}     # random histories
N_OPS = {"quick": 10, "thorough": 14}           # operations per random history
LABELS = ["", "L", "l", "K", "L_002", "locus001"]
CLASSES = ["Generic", "Continuous", "Dna", "Rna", "Nucleotide", "Protein", "RestrictionSites", "InfiniteSites",
           "Standard", "StandardBig"]
BIG_SYMBOLS = "abcdefghijklmnopqrstuvwxyzABCDEFGHIJKLMNOPQRSTUVWXYZ0123456789"


# ---------------------------------------------------------------------------------------------- data types
class Kind(object):
    """One matrix data type: how to make a matrix and how abstract cell codes map to its cell values.
    Generic / Continuous cells are the codes themselves; alphabet types use symbol number (code mod (n-1)),
    the last symbol being reserved for the fill value, and cells are logged as symbol numbers."""

    def __init__(self, dendropy, name):
        from dendropy.datamodel import charmatrixmodel as cmm
        from dendropy.datamodel import charstatemodel as csm
        self.name = name
        self.symbols = None
        self.alphabet = None
        if name == "Generic":
            self.cls = cmm.CharacterMatrix
        elif name == "Continuous":
            self.cls = cmm.ContinuousCharacterMatrix
        elif name == "Standard":
            self.cls = cmm.StandardCharacterMatrix
            self.alphabet = csm.new_standard_state_alphabet()
        elif name == "StandardBig":
            self.cls = cmm.StandardCharacterMatrix
            self.alphabet = csm.new_standard_state_alphabet(BIG_SYMBOLS, case_sensitive=True)
        else:
            self.cls = getattr(cmm, name + "CharacterMatrix")
            self.alphabet = self.cls.datatype_alphabet if hasattr(self.cls, "datatype_alphabet") else None
        if self.alphabet is not None:
            self.states = [s for s in self.alphabet]
            self.symbols = [str(s) for s in self.states]
            self.index = dict((sym, i) for i, sym in enumerate(self.symbols))

    def new_matrix(self, ns, label):
        kw = {"taxon_namespace": ns, "label": label if label != "" else None}
        if self.name in ("Standard", "StandardBig"):
            kw["default_state_alphabet"] = self.alphabet
        return self.cls(**kw)

    def cell(self, code):
        if self.symbols is None:
            return float(code) if self.name == "Continuous" else int(code)
        n = len(self.states)
        return self.states[n - 1] if code == PAD else self.states[code % (n - 1)]

    def logged(self, code):
        """the value proj_cell gives for cell(code)"""
        if self.symbols is None:
            return int(code)
        n = len(self.states)
        return n - 1 if code == PAD else code % (n - 1)

    def proj_cell(self, v):
        if self.symbols is None:
            try:
                return int(v) if v == int(v) else -2
            except Exception:
                return -2
        return self.index.get(str(v), -2)


def dense(code):
    """model cell 100*i + 10*t + c -> small number (syntactic re-coding, spreads cells of one row and one taxon)"""
    i, t, c = code // 100, (code // 10) % 10, code % 10
    if 1 <= i <= 5 and 1 <= t <= 6 and 1 <= c <= 3:
        return 1 + (c - 1) + 3 * (i - 1) + 15 * ((t - 1) % 3)
    return code


# ---------------------------------------------------------------------------------------------- world
class World(object):
    def __init__(self, dendropy, kind, tx):
        self.d = dendropy
        self.kind = kind
        self.tx = [list(x) for x in tx]               # taxon ids per namespace
        self.nss = []
        self.taxon = {}                               # id -> Taxon
        self.tid = {}                                 # id(Taxon) -> id
        for ids in self.tx:
            ns = dendropy.TaxonNamespace()
            for k in ids:
                t = ns.new_taxon(label="t%d" % k)
                self.taxon[k] = t
                self.tid[id(t)] = k
            self.nss.append(ns)
        self.slots = {}                               # slot -> matrix
        self.latest = 0
        self.next_slot = 6

    def build(self, slot, m):
        """abstract matrix (projection format, cells = abstract codes) -> real matrix"""
        mat = self.kind.new_matrix(self.nss[m["ns"] - 1], m["label"])
        for t, cells in m["rows"]:
            mat[self.taxon[t]] = [self.kind.cell(c) for c in cells]
        for name, idx in m["subs"]:
            mat.new_character_subset(label=name, character_indices=list(idx))
        self.slots[slot] = mat
        return mat

    def proj(self, mat):
        ns = 0
        for k, n in enumerate(self.nss):
            if mat.taxon_namespace is n:
                ns = k + 1
        rows = []
        for t, seq in list(mat._taxon_sequence_map.items()):
            # (a row can only exceed the cap after a call that was stopped by the step budget; the history ends there)
            rows.append([self.tid.get(id(t), 99), [self.kind.proj_cell(v) for v in list(seq._character_values)[:ROW_CAP]]])
        rows.sort()
        subs = []
        for cs in list(mat.character_subsets.values()):
            subs.append([cs.label if isinstance(cs.label, str) else "", sorted(int(i) for i in cs.character_indices)])
        return {"label": mat.label if isinstance(mat.label, str) else "", "ns": ns, "rows": rows, "subs": subs}

    def state(self):
        return [[s, self.proj(self.slots[s])] for s in sorted(self.slots)]

    def slot_of(self, s):
        """model slot 4 = the latest returned matrix"""
        return self.latest if s == 4 else s


def _exc_name(v):
    return type(v).__name__


def do_op(w, action, a, rng):
    """One public call on the real matrices; returns the logged event.  `a` holds model-level arguments:
    slots (i, j, L), index / taxon sets, sizes; rng only chooses among equivalent ways of passing them."""
    K = w.kind
    me = w.slot_of(a["i"]) if "i" in a else 0
    need = [me] if "i" in a else []
    need += [w.slot_of(s) for s in a.get("L", [])] + ([w.slot_of(a["j"])] if "j" in a else [])
    if any(s not in w.slots for s in need):
        return None                     # an earlier real call did not deliver the matrix the model path relies on
    if action == "ExportSubset" and a["k"] > len(w.slots[me].character_subsets):
        return None
    pre = w.state()
    others = []
    args = {}
    fn = None
    returns_matrix = False
    if action == "Concatenate":
        others = [w.slot_of(s) for s in a["L"]]
        ms = [w.slots[s] for s in others]
        fn = lambda: K.cls.concatenate(ms)
        returns_matrix = True
    elif action == "ExportIndices":
        idx = list(a["S"])
        rng.shuffle(idx)
        form = rng.choice(("list", "dup", "tuple", "set", "iter"))
        arg = {"list": idx, "dup": idx + idx[:1], "tuple": tuple(idx), "set": set(idx), "iter": iter(idx)}[form]
        args = {"S": sorted(a["S"]), "form": form}
        fn = lambda: w.slots[me].export_character_indices(arg)
        returns_matrix = True
    elif action == "ExportSubset":
        cs = list(w.slots[me].character_subsets.values())[a["k"] - 1]
        by = rng.choice(("label", "object"))
        args = {"k": a["k"], "by": by}
        fn = lambda: w.slots[me].export_character_subset(cs.label if by == "label" else cs)
        returns_matrix = True
    elif action in ("Fill", "Pack"):
        size = None if a["size"] < 0 else a["size"]
        args = {"v": K.logged(PAD), "size": a["size"], "append": a["append"]}
        m = w.slots[me]
        if action == "Fill":
            fn = lambda: m.fill(K.cell(PAD), size=size, append=a["append"])
        else:
            fn = lambda: m.pack(value=K.cell(PAD), size=size, append=a["append"])
    elif action == "FillTaxa":
        fn = w.slots[me].fill_taxa
    elif action in ("AddSequences", "ReplaceSequences", "UpdateSequences", "ExtendMatrix"):
        others = [w.slot_of(a["j"])]
        meth = {"AddSequences": "add_sequences", "ReplaceSequences": "replace_sequences",
                "UpdateSequences": "update_sequences", "ExtendMatrix": "extend_matrix"}[action]
        fn = lambda: getattr(w.slots[me], meth)(w.slots[others[0]])
    elif action == "ExtendSequences":
        others = [w.slot_of(a["j"])]
        how = "explicit" if a["flag"] else rng.choice(("default", "explicit"))
        args = {"flag": a["flag"], "how": how}
        if how == "default":
            fn = lambda: w.slots[me].extend_sequences(w.slots[others[0]])
        else:
            fn = lambda: w.slots[me].extend_sequences(w.slots[others[0]], is_add_new_sequences=a["flag"])
    elif action in ("RemoveSequences", "DiscardSequences", "KeepSequences"):
        ids = list(a["taxa"])            # a sequence: order and repeats are part of the call
        # the docstrings accept any iterable of Taxon objects; forms that cannot carry repeats
        # (set, TaxonNamespace) are logged with what they actually pass
        forms = ["list", "tuple", "iter", "gen"]
        if action != "RemoveSequences":
            forms += ["set", "namespace"]
        form = rng.choice(forms)
        if form in ("set", "namespace"):
            ids = [t for k, t in enumerate(ids) if t not in ids[:k]]
        taxa = [w.taxon[t] for t in ids]
        if form == "namespace":
            arg = w.d.TaxonNamespace()
            for t in taxa:
                arg.add_taxon(t)
        else:
            arg = {"list": taxa, "tuple": tuple(taxa), "iter": iter(taxa), "gen": (t for t in taxa), "set": set(taxa)}[form]
        args = {"taxa": ids, "form": form}
        meth = {"RemoveSequences": "remove_sequences", "DiscardSequences": "discard_sequences",
                "KeepSequences": "keep_sequences"}[action]
        fn = lambda: getattr(w.slots[me], meth)(arg)
    elif action in ("NewSequence", "SetItem", "DelItem"):
        m = w.slots[me]
        t = w.taxon[a["t"]]
        vals = [K.cell(c) for c in a.get("vals", [])]
        args = {"t": a["t"], "vals": [K.logged(c) for c in a.get("vals", [])]}
        if action == "NewSequence":
            v = vals if (vals or rng.random() < 0.5) else None
            fn = lambda: m.new_sequence(t, v)
        else:
            kind = rng.choice(("taxon", "index", "label"))
            ns = m.taxon_namespace
            pos = [k for k, x in enumerate(ns) if x is t]
            if kind == "index" and not pos:
                kind = "taxon"
            key = {"taxon": t, "index": pos[0] if pos else 0, "label": t.label}[kind]
            args["key"] = kind
            if action == "SetItem":
                def fn():
                    m[key] = vals
            else:
                def fn():
                    del m[key]
    elif action == "SetLabel":
        args = {"l": a["l"]}

        def fn():
            w.slots[me].label = a["l"] if a["l"] != "" else None
    else:
        raise core.MachineryError("unknown action " + action)
    cells = sum(len(r[1]) + 1 for s_, m_ in pre for r in m_["rows"])
    outcome, val, steps = run_with_budget(fn, BUDGET + 100 * cells)
    raised = _exc_name(val) if outcome == "exc" else ""
    res = 0
    rescls = ""
    if outcome == "ok" and returns_matrix:
        known = [s for s in w.slots if w.slots[s] is val]
        if known:
            res = known[0]
        elif hasattr(val, "_taxon_sequence_map"):
            res = w.next_slot
            w.next_slot += 1
            w.slots[res] = val
        if res:
            w.latest = res
            rescls = type(val).__name__
    post = w.state()
    args["n"] = len(others)
    ev = {"action": action, "cls": K.name, "tx": w.tx, "pre": pre, "post": post, "self": me, "others": others,
          "a": args, "outcome": outcome, "raised": raised, "res": res, "steps": steps}
    if rescls and rescls != K.cls.__name__:
        ev["rescls"] = rescls
    return ev


# ---------------------------------------------------------------------------------------------- model replay
def _as_map(x):
    """TLC prints a function with domain 1..n as a tuple"""
    if isinstance(x, dict):
        return dict(x)
    return dict((i + 1, v) for i, v in enumerate(x))


def init_from_model(mats):
    out = []
    for slot, m in sorted(_as_map(mats).items()):
        rows = [[t, [dense(c) for c in cells]] for t, cells in sorted(_as_map(m["rows"]).items())]
        subs = [[s["name"], sorted(s["idx"])] for s in m["subs"]]
        out.append([slot, {"label": m["label"], "ns": m["ns"], "rows": rows, "subs": subs}])
    return out


def model_args(name, args):
    if name == "Concatenate":
        return {"L": list(args[0])}
    if name == "ExportIndices":
        return {"i": args[0], "S": sorted(args[1])}
    if name == "ExportSubset":
        return {"i": args[0], "k": args[1]}
    if name in ("Fill", "Pack"):
        return {"i": args[0], "size": args[1], "append": args[2]}
    if name == "FillTaxa":
        return {"i": args[0]}
    if name in ("AddSequences", "ReplaceSequences", "UpdateSequences", "ExtendMatrix"):
        return {"i": args[0], "j": args[1]}
    if name == "ExtendSequences":
        return {"i": args[0], "j": args[1], "flag": args[2]}
    if name in ("RemoveSequences", "DiscardSequences", "KeepSequences"):
        return {"i": args[0], "taxa": list(args[1])}
    if name in ("NewSequence", "SetItem"):
        return {"i": args[0], "t": args[1], "vals": [dense(c) for c in args[2]]}
    if name == "DelItem":
        return {"i": args[0], "t": args[1]}
    if name == "SetLabel":
        return {"i": args[0], "l": args[1]}
    raise core.MachineryError("unknown model action %s" % name)


def make_world(dendropy, case):
    w = World(dendropy, Kind(dendropy, case["cls"]), case["tx"])
    for slot, m in case["init"]:
        w.build(slot, m)
    return w


def run_case(case):
    import dendropy
    rng = random.Random(case.get("seed", 0))
    w = make_world(dendropy, case)
    if case["kind"] == "path":
        evs = []
        path = case["path"]
        for k, (name, args) in enumerate(path):
            ev = do_op(w, name, model_args(name, args), rng)
            if ev is None or (k < len(path) - 1 and ev["outcome"] == "hang"):
                return [{"action": "Unreached", "cls": case["cls"], "pre": [], "post": [], "at": k + 1}]
            if k == len(path) - 1:
                evs.append(ev)          # the transition under test (its prefix is another case's last edge)
        return evs
    return random_history(w, rng, case)


# ---------------------------------------------------------------------------------------------- random histories
def random_init(rng, ntaxa, nfor, nmat, maxcols):
    """abstract initial matrices for a random history (cells get consecutive codes: all distinct)"""
    code = [0]

    def row(n):
        out = []
        for _ in range(n):
            code[0] += 1
            out.append(code[0])
        return out
    tx = [list(range(1, ntaxa + 1)), list(range(ntaxa + 1, ntaxa + nfor + 1))]
    init = []
    for s in range(1, nmat + 2):
        ns = 2 if s == nmat + 1 else 1
        taxa = tx[ns - 1]
        shape = rng.random()
        if shape < 0.5:                                     # full, rectangular
            wdt = rng.randint(0, maxcols)
            rows = [[t, row(wdt)] for t in taxa]
        elif shape < 0.8:                                   # partial taxon set, ragged
            rows = [[t, row(rng.randint(0, maxcols))] for t in taxa if rng.random() < 0.6]
        else:                                               # full, ragged
            rows = [[t, row(rng.randint(0, maxcols))] for t in taxa]
        subs = []
        if rng.random() < 0.5:
            subs.append(["s1", sorted(rng.sample(range(maxcols + 2), rng.randint(0, 3)))])
        slot = s if s <= 3 else (5 if s == nmat + 1 else 20 + s)
        init.append([slot, {"label": rng.choice(LABELS + ["m%d" % s]), "ns": ns, "rows": rows, "subs": subs}])
    return tx, init, code[0]


def random_history(w, rng, case):
    evs = []
    code = [case["ncodes"]]

    def fresh(n):
        out = []
        for _ in range(n):
            code[0] += 1
            out.append(code[0])
        return out
    for _ in range(case["nops"]):
        slots = sorted(w.slots)
        home = [s for s in slots if w.slots[s].taxon_namespace is w.nss[0]]
        i = rng.choice(home) if home and rng.random() < 0.9 else rng.choice(slots)
        m = w.slots[i]
        nsi = 1 if m.taxon_namespace is w.nss[0] else 2
        taxa = w.tx[nsi - 1]
        have = [w.tid[id(t)] for t in m._taxon_sequence_map if id(t) in w.tid]
        r = rng.random()
        if r < 0.14:
            full = [s for s in home if len(w.slots[s]._taxon_sequence_map) == len(w.tx[0])
                    and len(set(len(q) for q in w.slots[s]._taxon_sequence_map.values())) == 1]
            pool = full if (full and rng.random() < 0.85) else slots
            L = [rng.choice(pool) for _ in range(rng.randint(1, 4))]
            if rng.random() < 0.08:
                L.insert(rng.randint(0, len(L)), 5)
            evs.append(do_op(w, "Concatenate", {"L": L}, rng))
        elif r < 0.26:
            width = max([len(q) for q in m._taxon_sequence_map.values()] + [1])
            S = sorted(set(rng.randint(0, width + 1) for _ in range(rng.randint(0, width + 1))))
            evs.append(do_op(w, "ExportIndices", {"i": i, "S": S}, rng))
        elif r < 0.32:
            n = len(m.character_subsets)
            if n:
                evs.append(do_op(w, "ExportSubset", {"i": i, "k": rng.randint(1, n)}, rng))
        elif r < 0.40:
            evs.append(do_op(w, "Fill", {"i": i, "size": rng.choice((-1, -1, rng.randint(0, 10))), "append": rng.random() < 0.6}, rng))
        elif r < 0.44:
            evs.append(do_op(w, "FillTaxa", {"i": i}, rng))
        elif r < 0.50:
            evs.append(do_op(w, "Pack", {"i": i, "size": rng.choice((-1, -1, rng.randint(0, 10))), "append": rng.random() < 0.6}, rng))
        elif r < 0.74:
            j = rng.choice([s for s in slots if s != i])
            if rng.random() < 0.04:
                j = i                   # the receiver as its own argument: judged for termination only
            act = rng.choice(("AddSequences", "ReplaceSequences", "UpdateSequences", "ExtendSequences", "ExtendSequences", "ExtendMatrix"))
            a = {"i": i, "j": j}
            if act == "ExtendSequences":
                a["flag"] = rng.random() < 0.5
            evs.append(do_op(w, act, a, rng))
            if evs[-1]["outcome"] == "hang":
                break                   # the receiver may have been left with rows of arbitrary length
        elif r < 0.88:
            act = rng.choice(("RemoveSequences", "DiscardSequences", "KeepSequences"))
            if act == "RemoveSequences" and rng.random() < 0.8:
                T = [t for t in have if rng.random() < 0.4]
            else:
                T = [t for t in taxa if rng.random() < 0.4]
            if T and rng.random() < 0.35:          # name some taxa more than once
                T = T + [rng.choice(T) for _ in range(rng.randint(1, 2))]
            rng.shuffle(T)
            evs.append(do_op(w, act, {"i": i, "taxa": T}, rng))
        elif r < 0.97:
            t = rng.choice(taxa)
            vals = fresh(rng.randint(0, 4))
            if t in have:
                act = rng.choice(("SetItem", "DelItem"))
            else:
                act = rng.choice(("SetItem", "NewSequence"))
            evs.append(do_op(w, act, {"i": i, "t": t, "vals": vals}, rng))
        else:
            evs.append(do_op(w, "SetLabel", {"i": i, "l": rng.choice(LABELS)}, rng))
    return evs


# ---------------------------------------------------------------------------------------------- check
def judge_chunk(ctx, driven, stats):
    """TLC judges the driven cases; afterwards only the events of traces with a failing clause are kept in memory
    (they are needed for replay files), the rest is counted and dropped."""
    import hashlib
    if not driven:
        return
    ctx.judge("Trace_CharMatrix", driven, batch=3000)
    settle(ctx)
    for case, evs in driven:
        for e in evs:
            if e["action"] == "Unreached":
                stats["unreached"] += 1
                continue
            if e["outcome"] == "hang":
                stats["hangs"] += 1
            else:
                stats["maxsteps"] = max(stats["maxsteps"], e["steps"])
            if e["action"] != "SetLabel":
                key = core.dumps([e["action"], e["cls"], e["a"], e["self"], e["others"], e["pre"]])
                ctx.add_nontrivial(hashlib.sha1(key.encode()).hexdigest())
    if len(stats["samples"]) < 2:
        stats["samples"].append({"case": driven[0][0], "events": driven[0][1][:1]})
    bad = set(v["tid"] for v in ctx.verdicts)
    ctx.events[:] = [e for e in ctx.events if e["tid"] in bad]


def model_cases(ctx, cfg, classes_of_edge, seed0, stats, chunk=40000):
    """Phase 1 drives the transitions leaving the initial states; transitions observed not to return (step budget)
    are then left out of the routes to deeper states (a state only reachable through them is not reachable on the
    real objects: counted, not judged)."""
    dot = os.path.join(ctx.work, "c19.dot")
    ctx.model("MC_CharMatrix", cfg, extra=("-dump", "dot,actionlabels", dot), count=False)
    inits, edges, states = tlaval.read_dot(dot)
    os.remove(dot)
    init_abs = dict((i, init_from_model(states[i]["mats"])) for i in inits)

    def mk(n, u, name, args, paths, root):
        path = paths[u] + [(name, args)]
        return [{"kind": "path", "cls": cls, "tx": [[1, 2, 3], [4, 5, 6]], "init": init_abs[root[u]], "path": path,
                 "seed": seed0 + n, "edge": n} for cls in classes_of_edge(n, len(path))]
    paths, root = tlaval.shortest_paths(inits, edges)
    first = []
    for n, (u, v, name, args) in enumerate(edges):
        if u in inits:
            first.extend(mk(n, u, name, args, paths, root))
    driven1 = ctx.drive(first, run_case)
    stuck = set(case["edge"] for case, evs in driven1 if any(e.get("outcome") == "hang" for e in evs))
    judge_chunk(ctx, driven1, stats)
    live = [e for n, e in enumerate(edges) if n not in stuck]
    paths, root = tlaval.shortest_paths(inits, live)
    deeper = []
    cut = 0
    ndeep = 0
    for n, (u, v, name, args) in enumerate(edges):
        if u in inits:
            continue
        if u not in paths:
            cut += 1
            continue
        deeper.extend(mk(n, u, name, args, paths, root))
        if len(deeper) >= chunk:
            ndeep += len(deeper)
            judge_chunk(ctx, ctx.drive(deeper, run_case), stats)
            deeper = []
    ndeep += len(deeper)
    judge_chunk(ctx, ctx.drive(deeper, run_case), stats)
    return len(first) + ndeep, len(edges), len(stuck), cut


def naming_models(ctx):
    """Termination of the naming loop (reference design), and the lasso of the shipped loop."""
    ctx.model("ConcatNaming", "MC_ConcatNaming.cfg")
    # vlib.tlc does not parse TLC's "Temporal property X was violated" line: run it here and read the output
    r = _tlc.run_tlc("ConcatNaming", "AsShipped_CharMatrix.cfg", ctx.work, workers=4)
    lasso = ("Temporal property Termination was violated" in r.stdout or "Temporal properties were violated" in r.stdout) \
        and "Back to state" in r.stdout
    d = r.as_dict()
    d.update({"module": "ConcatNaming", "cfg": "AsShipped_CharMatrix.cfg", "expect_violation": "Termination",
              "violated": "Termination" if lasso else None})
    ctx.model_runs.append(d)
    if not lasso:
        raise core.MachineryError("ConcatNaming/AsShipped_CharMatrix.cfg: expected a Termination lasso\n" + r.tail(40))
    ctx.expected_model_violations.append("ConcatNaming/AsShipped_CharMatrix.cfg: Termination (lasso: Probe loops back)")
    ctx.log("model ConcatNaming AsShipped_CharMatrix.cfg: Termination lasso found as expected (%d distinct states)" % r.distinct)


def settle(ctx):
    """verdicts with the prefix 'drift.' are differences the property leaves free: counted, never failing"""
    keep = []
    for v in ctx.verdicts:
        if v["clause"].startswith("drift."):
            k = "%s %s" % (v["clause"][6:], v.get("class", ""))
            ctx.drift[k] = ctx.drift.get(k, 0) + 1
        else:
            keep.append(v)
    ctx.verdicts[:] = keep


def run(ctx):
    quick = ctx.quick
    stats = {"unreached": 0, "hangs": 0, "maxsteps": 0, "samples": []}
    # 1. TLC checks the design: every history up to the depth, every clause on every applicable operation
    ctx.model("MC_CharMatrix", "MC_CharMatrix_quick.cfg" if quick else "MC_CharMatrix_thorough.cfg", timeout=3000 if quick else 20000)
    naming_models(ctx)
    # 2. spec -> code: one real execution per transition of the dumped graph, on every data type
    ncls = len(CLASSES)
    per_deep_edge = DEEP_CLASSES[ctx.tier]

    def classes_of_edge(n, depth):
        if depth == 1:
            return CLASSES
        return [CLASSES[(n + 3 * k) % ncls] for k in range(per_deep_edge)] if per_deep_edge < ncls else CLASSES
    nreplay, nedges, nstuck, ncut = model_cases(ctx, "MC_CharMatrix_replay_quick.cfg" if quick else "MC_CharMatrix_replay_thorough.cfg",
                                                classes_of_edge, ctx.seed * 7919, stats)
    # 3. seeded random histories on larger matrices
    nrand = N_RANDOM[ctx.tier]
    nops = N_OPS[ctx.tier]
    rnd = []
    for k in range(nrand):
        rng = random.Random(ctx.seed * 1000003 + k)
        tx, init, ncodes = random_init(rng, rng.randint(3, 6), 2, rng.randint(3, 4), rng.randint(1, 6))
        rnd.append({"kind": "random", "cls": CLASSES[k % ncls], "tx": tx, "init": init, "ncodes": ncodes,
                    "nops": nops, "seed": ctx.seed * 1000003 + k})
    for k in range(0, nrand, 4000):
        judge_chunk(ctx, ctx.drive(rnd[k:k + 4000], run_case), stats)
    ctx.rule = ("cases = one real execution per transition of the dumped TLC state graph of MC_CharMatrix (%d transitions: "
                "those leaving an initial state on all %d data types, deeper ones on %d data type(s) each, in rotation) "
                "+ %d seeded random histories of %d operations on matrices with 3-6 taxa, <= 6 columns; "
                "distinct_nontrivial counts distinct (operation, data type, arguments, abstract pre-state of all matrices) "
                "tuples actually executed" % (nedges, ncls, min(per_deep_edge, ncls), nrand, nops))
    ctx.exhaustive = False
    ctx.extra["model_transitions_replayed"] = nedges
    ctx.extra["replay_cases"] = nreplay
    ctx.extra["data_types"] = CLASSES
    ctx.extra["first_transitions_exceeding_step_budget"] = nstuck
    ctx.extra["model_transitions_not_reachable_on_real_objects"] = ncut
    ctx.extra["replays_cut_short_by_diverged_prefix"] = stats["unreached"]
    ctx.extra["calls_exceeding_step_budget"] = stats["hangs"]
    ctx.extra["max_steps_of_terminating_call"] = stats["maxsteps"]
    ctx.extra["step_budget"] = BUDGET
    ctx.assumptions.append("cells of 2-symbol data types (RestrictionSites, InfiniteSites) and of the 17-symbol nucleotide "
                           "types cannot all be distinct; Generic, Continuous and StandardBig matrices have pairwise distinct cells")
    ctx.assumptions.append("calls stay inside the documented preconditions: concatenate on full rectangular matrices (or with a "
                           "foreign-namespace matrix); taxa arguments are sequences that may name a taxon repeatedly (for remove_sequences the "
                           "documented KeyError is then the expected outcome); the receiver passed as its own other_matrix occurs only in "
                           "the random histories and is judged for termination only")
    for smp in stats["samples"]:
        ctx.add_sample(smp)


def replay(ctx, rec):
    driven = ctx.drive([rec["case"]], run_case, parallel=False)
    ctx.judge("Trace_CharMatrix", driven)
    settle(ctx)
    ctx.rule = "replay of one recorded case"
    ctx.add_sample({"case": rec["case"]})
    ctx.nontrivial.update(["replay", "replay2"])
