#!/bin/sh
# setup_cmd: everything is interpreted (TLA+ modules, Python); check that the tools are present
# and that every specification module parses.
set -e
cd "$(dirname "$0")"
command -v java >/dev/null
test -f /opt/veriftools/tla/tla2tools.jar
PYTHONPATH=harness /venv/bin/python harness/vlib/tlaval.py
fail=0
for f in spec/*.tla; do
  if ! (cd spec && java -cp /opt/veriftools/tla/tla2tools.jar:/opt/veriftools/tla/CommunityModules-deps.jar tla2sany.SANY "$(basename "$f")" >/tmp/sany.$$ 2>&1); then
    echo "WARNING: SANY failed on $f (the check that uses it will report a machinery failure)"; tail -3 /tmp/sany.$$
  fi
done
rm -f /tmp/sany.$$
[ $fail -eq 0 ] && echo "setup ok"
exit $fail
